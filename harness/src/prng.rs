//! One integer decides everything: SplitMix64 seeding + xoshiro256** stream.
//! No dependency on any external crate, no global state, no clock.

#[derive(Clone, Debug)]
pub struct Rng {
    s: [u64; 4],
    pub draws: u64,
}

pub fn splitmix(x: &mut u64) -> u64 {
    *x = x.wrapping_add(0x9E37_79B9_7F4A_7C15);
    let mut z = *x;
    z = (z ^ (z >> 30)).wrapping_mul(0xBF58_476D_1CE4_E5B9);
    z = (z ^ (z >> 27)).wrapping_mul(0x94D0_49BB_1331_11EB);
    z ^ (z >> 31)
}

/// Derive the seed of simulation `idx` (and sub-stream `lane`) from the base seed.
pub fn mix(base: u64, idx: u64, lane: u64) -> u64 {
    let mut x = base ^ idx.wrapping_mul(0xD6E8_FEB8_6659_FD93) ^ lane.wrapping_mul(0xA076_1D64_78BD_642F);
    let a = splitmix(&mut x);
    let b = splitmix(&mut x);
    a ^ b.rotate_left(17)
}

impl Rng {
    pub fn new(seed: u64) -> Rng {
        let mut x = seed;
        let s = [splitmix(&mut x), splitmix(&mut x), splitmix(&mut x), splitmix(&mut x)];
        Rng { s, draws: 0 }
    }

    pub fn next_u64(&mut self) -> u64 {
        self.draws += 1;
        let result = self.s[1].wrapping_mul(5).rotate_left(7).wrapping_mul(9);
        let t = self.s[1] << 17;
        self.s[2] ^= self.s[0];
        self.s[3] ^= self.s[1];
        self.s[1] ^= self.s[2];
        self.s[0] ^= self.s[3];
        self.s[2] ^= t;
        self.s[3] = self.s[3].rotate_left(45);
        result
    }

    /// Uniform in 0..n (n > 0).
    pub fn below(&mut self, n: u64) -> u64 {
        debug_assert!(n > 0);
        // Multiply-shift; bias is negligible for the n used here and, more
        // importantly, it is a pure function of the stream.
        ((self.next_u64() as u128 * n as u128) >> 64) as u64
    }

    /// Uniform in lo..=hi.
    pub fn range(&mut self, lo: i64, hi: i64) -> i64 {
        debug_assert!(lo <= hi);
        lo + self.below((hi - lo + 1) as u64) as i64
    }

    pub fn chance(&mut self, num: u64, den: u64) -> bool {
        self.below(den) < num
    }

    pub fn pick<'a, T>(&mut self, v: &'a [T]) -> &'a T {
        &v[self.below(v.len() as u64) as usize]
    }

    pub fn weighted(&mut self, weights: &[u64]) -> usize {
        let total: u64 = weights.iter().sum();
        let mut r = self.below(total);
        for (i, w) in weights.iter().enumerate() {
            if r < *w {
                return i;
            }
            r -= *w;
        }
        weights.len() - 1
    }

    pub fn shuffle<T>(&mut self, v: &mut [T]) {
        for i in (1..v.len()).rev() {
            let j = self.below(i as u64 + 1) as usize;
            v.swap(i, j);
        }
    }

    pub fn fill(&mut self, buf: &mut [u8]) {
        for chunk in buf.chunks_mut(8) {
            let b = self.next_u64().to_le_bytes();
            chunk.copy_from_slice(&b[..chunk.len()]);
        }
    }
}

/// FNV-1a 64 — used for digests of event logs / outputs (not for hashing containers).
pub fn fnv64(data: &[u8]) -> u64 {
    let mut h: u64 = 0xcbf2_9ce4_8422_2325;
    for b in data {
        h ^= *b as u64;
        h = h.wrapping_mul(0x0000_0100_0000_01B3);
    }
    h
}

pub fn fnv64_add(h: u64, data: &[u8]) -> u64 {
    let mut h = h;
    for b in data {
        h ^= *b as u64;
        h = h.wrapping_mul(0x0000_0100_0000_01B3);
    }
    h
}
