//! Fidelity self-test of the simulated disk: seeded sequences of std::fs operations (the API acb
//! itself uses: File::create, OpenOptions, write_all, set_len, sync_all, rename, hard_link,
//! remove_file, create_dir_all, metadata, read) are executed twice — by a simulated process over
//! SimFs (`/simfs/st/...`, through the interposed libc calls) and by the same code over the real
//! kernel file system (a scratch directory under /verif/target) — and every result (value or
//! errno) and the final tree must agree. A disagreement means the stub misrepresents the kernel:
//! harness error, never a violation.
//!
//!   acbsim selftest-simfs [N]

use crate::interpose::with_world;
use crate::prng::Rng;
use crate::proc::{run_process, ProcEnv};
use std::io::{Read, Seek, SeekFrom, Write};

#[derive(Clone, Debug)]
enum Op {
    MkdirAll(usize),
    Create(usize, usize),
    OpenAppend(usize, usize),
    OpenRw(usize, usize),
    OpenNoTrunc(usize, usize),
    CreateNew(usize, usize),
    Write(usize, usize, u8),
    SeekTo(usize, u64),
    SetLen(usize, u64),
    SyncAll(usize),
    ReadSome(usize, usize),
    Close(usize),
    ReadAll(usize),
    Rename(usize, usize),
    HardLink(usize, usize),
    Remove(usize),
    RemoveDir(usize),
    Len(usize),
    Chmod(usize, u32),
    ListDir(usize),
    RemoveDirAll(usize),
    /// link name (FILES index), target (TARGETS index)
    Symlink(usize, usize),
    ReadLink(usize),
    LStat(usize),
    Canonicalize(usize),
    CreateDirPlain(usize),
}

const DIRS: [&str; 3] = ["d1", "d1/sub", "d2"];
const FILES: [&str; 9] = ["d1/a", "d1/a.tmp", "d1/b", "d1/sub/c", "d2/a", "x", "d1/sub", "d2/l", "d1/l/a"];
/// symbolic-link targets: relative ones, and `@/...` = absolute under the base directory
const TARGETS: [&str; 9] = ["a", "../d2/a", "sub/c", "sub", "@/d2", "@/d1/b", "l", "../d1", "nowhere/x"];

fn gen(seed: u64) -> Vec<Op> {
    let mut r = Rng::new(seed);
    let n = r.range(6, 40);
    let mut v = vec![];
    if r.chance(3, 4) {
        v.push(Op::MkdirAll(0));
    }
    for _ in 0..n {
        let f = r.below(FILES.len() as u64) as usize;
        let g = r.below(FILES.len() as u64) as usize;
        let s = r.below(3) as usize;
        v.push(match r.weighted(&[2, 5, 2, 2, 2, 1, 8, 2, 2, 2, 2, 4, 3, 4, 2, 3, 1, 3, 1, 4, 1, 5, 2, 3, 2, 1]) {
            0 => Op::MkdirAll(r.below(DIRS.len() as u64) as usize),
            1 => Op::Create(s, f),
            2 => Op::OpenAppend(s, f),
            3 => Op::OpenRw(s, f),
            4 => Op::OpenNoTrunc(s, f),
            5 => Op::CreateNew(s, f),
            6 => Op::Write(s, *r.pick(&[1usize, 7, 100, 5000, 9000]), b'a' + r.below(26) as u8),
            7 => Op::SeekTo(s, r.range(0, 6000) as u64),
            8 => Op::SetLen(s, r.range(0, 6000) as u64),
            9 => Op::SyncAll(s),
            10 => Op::ReadSome(s, *r.pick(&[1usize, 50, 10000])),
            11 => Op::Close(s),
            12 => Op::ReadAll(f),
            13 => Op::Rename(f, g),
            14 => Op::HardLink(f, g),
            15 => Op::Remove(f),
            16 => Op::RemoveDir(r.below(DIRS.len() as u64) as usize),
            17 => Op::Len(f),
            18 => Op::Chmod(f, *r.pick(&[0o600u32, 0o644, 0o700])),
            19 => Op::ListDir(r.below(DIRS.len() as u64) as usize),
            20 => Op::RemoveDirAll(r.below(DIRS.len() as u64) as usize),
            21 => Op::Symlink(f, r.below(TARGETS.len() as u64) as usize),
            22 => Op::ReadLink(f),
            23 => Op::LStat(f),
            24 => Op::Canonicalize(f),
            _ => Op::CreateDirPlain(f),
        });
    }
    v
}

fn digest(b: &[u8]) -> String {
    format!("{}B:{:016x}", b.len(), crate::prng::fnv64(b))
}

fn show<T: std::fmt::Debug>(r: std::io::Result<T>) -> String {
    match r {
        Ok(v) => format!("Ok({:?})", v),
        Err(e) => format!("Err(os {:?})", e.raw_os_error()),
    }
}

/// Execute the sequence under `base`; one line per operation, then the final tree.
fn execute(base: &str, ops: &[Op]) -> Vec<String> {
    use std::fs::{self, File, OpenOptions};
    let p = |i: usize| format!("{}/{}", base, FILES[i]);
    let dpath = |i: usize| format!("{}/{}", base, DIRS[i]);
    let mut slots: Vec<Option<File>> = vec![None, None, None];
    let mut out = vec![];
    for op in ops {
        let line = match op {
            Op::MkdirAll(d) => show(fs::create_dir_all(dpath(*d))),
            Op::Create(s, f) => match File::create(p(*f)) {
                Ok(h) => {
                    slots[*s] = Some(h);
                    "Ok".into()
                }
                Err(e) => show::<()>(Err(e)),
            },
            Op::OpenAppend(s, f) => match OpenOptions::new().append(true).create(true).open(p(*f)) {
                Ok(h) => {
                    slots[*s] = Some(h);
                    "Ok".into()
                }
                Err(e) => show::<()>(Err(e)),
            },
            Op::OpenRw(s, f) => match OpenOptions::new().read(true).write(true).open(p(*f)) {
                Ok(h) => {
                    slots[*s] = Some(h);
                    "Ok".into()
                }
                Err(e) => show::<()>(Err(e)),
            },
            Op::OpenNoTrunc(s, f) => match OpenOptions::new().write(true).create(true).open(p(*f)) {
                Ok(h) => {
                    slots[*s] = Some(h);
                    "Ok".into()
                }
                Err(e) => show::<()>(Err(e)),
            },
            Op::CreateNew(s, f) => match OpenOptions::new().write(true).create_new(true).open(p(*f)) {
                Ok(h) => {
                    slots[*s] = Some(h);
                    "Ok".into()
                }
                Err(e) => show::<()>(Err(e)),
            },
            Op::Write(s, n, b) => match slots[*s].as_mut() {
                Some(h) => show(h.write_all(&vec![*b; *n])),
                None => "no handle".into(),
            },
            Op::SeekTo(s, pos) => match slots[*s].as_mut() {
                Some(h) => show(h.seek(SeekFrom::Start(*pos))),
                None => "no handle".into(),
            },
            Op::SetLen(s, n) => match slots[*s].as_mut() {
                Some(h) => show(h.set_len(*n)),
                None => "no handle".into(),
            },
            Op::SyncAll(s) => match slots[*s].as_mut() {
                Some(h) => show(h.sync_all()),
                None => "no handle".into(),
            },
            Op::ReadSome(s, n) => match slots[*s].as_mut() {
                Some(h) => {
                    let mut buf = vec![0u8; *n];
                    // read until the buffer is full or EOF: a short count is legal and not compared
                    let mut got = 0;
                    let mut res: std::io::Result<()> = Ok(());
                    while got < buf.len() {
                        match h.read(&mut buf[got..]) {
                            Ok(0) => break,
                            Ok(k) => got += k,
                            Err(e) => {
                                res = Err(e);
                                break;
                            }
                        }
                    }
                    match res {
                        Ok(()) => format!("Ok({})", digest(&buf[..got])),
                        Err(e) => show::<()>(Err(e)),
                    }
                }
                None => "no handle".into(),
            },
            Op::Close(s) => {
                slots[*s] = None;
                "closed".into()
            }
            Op::ReadAll(f) => match fs::read(p(*f)) {
                Ok(b) => format!("Ok({})", digest(&b)),
                Err(e) => show::<()>(Err(e)),
            },
            Op::Rename(a, b) => show(fs::rename(p(*a), p(*b))),
            Op::HardLink(a, b) => show(fs::hard_link(p(*a), p(*b))),
            Op::Remove(f) => show(fs::remove_file(p(*f))),
            Op::RemoveDir(d) => show(fs::remove_dir(dpath(*d))),
            Op::Len(f) => show(fs::metadata(p(*f)).map(|m| (if m.is_dir() { 0 } else { m.len() }, m.is_dir()))),
            Op::ListDir(d) => match fs::read_dir(dpath(*d)) {
                Ok(rd) => {
                    // a file system promises no order: compare the sorted listing
                    let mut v: Vec<String> = vec![];
                    for e in rd {
                        match e {
                            Ok(e) => {
                                let ft = e.file_type().map(|t| if t.is_dir() { "d" } else if t.is_symlink() { "l" } else { "f" }).unwrap_or("?");
                                // (the length of a link is the length of its target text, which contains the base directory)
                                let len = e.metadata().map(|m| if m.is_dir() || m.file_type().is_symlink() { 0 } else { m.len() }).map_err(|x| x.raw_os_error());
                                v.push(format!("{}:{}:{:?}", e.file_name().to_string_lossy(), ft, len));
                            }
                            Err(x) => v.push(format!("Err(os {:?})", x.raw_os_error())),
                        }
                    }
                    v.sort();
                    format!("Ok({:?})", v)
                }
                Err(e) => show::<()>(Err(e)),
            },
            Op::RemoveDirAll(d) => show(fs::remove_dir_all(dpath(*d))),
            Op::Symlink(f, t) => {
                let target = match TARGETS[*t].strip_prefix('@') {
                    Some(abs) => format!("{}{}", base, abs),
                    None => TARGETS[*t].to_string(),
                };
                show(std::os::unix::fs::symlink(target, p(*f)))
            }
            Op::ReadLink(f) => show(fs::read_link(p(*f)).map(|t| t.to_string_lossy().replace(base.trim_end_matches("/b"), "@"))),
            Op::LStat(f) => show(fs::symlink_metadata(p(*f)).map(|m| (m.file_type().is_symlink(), m.is_dir(), if m.is_dir() { 0 } else { m.len() - if m.file_type().is_symlink() && fs::read_link(p(*f)).map(|t| t.is_absolute()).unwrap_or(false) { base.len() as u64 } else { 0 } }))),
            Op::Canonicalize(f) => show(fs::canonicalize(p(*f)).map(|t| t.to_string_lossy().replace(base.trim_end_matches("/b"), "@"))),
            Op::CreateDirPlain(f) => show(fs::create_dir(p(*f))),
            Op::Chmod(f, mode) => {
                use std::os::unix::fs::PermissionsExt;
                let r = fs::set_permissions(p(*f), std::fs::Permissions::from_mode(*mode));
                let back = fs::metadata(p(*f)).map(|m| m.permissions().mode() & 0o777);
                format!("{} then {}", show(r), show(back))
            }
        };
        out.push(format!("{:?} -> {}", op, line));
    }
    drop(slots);
    for (i, f) in FILES.iter().enumerate() {
        let line = match fs::read(p(i)) {
            Ok(b) => format!("final {} = {}", f, digest(&b)),
            Err(e) => format!("final {} = Err(os {:?})", f, e.raw_os_error()),
        };
        out.push(line);
        out.push(format!("final link {} = {}", f, show(fs::read_link(p(i)).map(|t| t.to_string_lossy().replace(base.trim_end_matches("/b"), "@")))));
    }
    out
}

pub fn run(n: u64) -> i32 {
    let real_root = format!("/verif/target/simfs-selftest/{}", std::process::id());
    let mut bad = 0u64;
    let mut ops_total = 0u64;
    for seed in 0..n {
        let ops = gen(crate::prng::mix(0x5E1F, seed, 1));
        ops_total += ops.len() as u64;
        // simulated
        with_world(|w| w.fs.disk = crate::simfs::Disk::new());
        let env = ProcEnv::new(seed, time::Date::from_calendar_date(2024, time::Month::June, 3).unwrap());
        let ops2 = ops.clone();
        let sim = run_process(&env, move || {
            let _ = std::fs::create_dir_all("/simfs/st/b");
            execute("/simfs/st/b", &ops2)
        });
        let sim_lines = match sim.result {
            Ok(l) => l,
            Err(p) => vec![format!("PANIC {}", p)],
        };
        // real kernel
        // (one level of nesting: a link target with `..` stays inside this sequence's own directory)
        let outer = format!("{}/{}", real_root, seed);
        let base = format!("{}/b", outer);
        let _ = std::fs::remove_dir_all(&outer);
        std::fs::create_dir_all(&base).expect("selftest scratch directory");
        let real_lines = execute(&base, &ops);
        let _ = std::fs::remove_dir_all(&outer);
        if !sim.unmodelled.is_empty() {
            println!("selftest-simfs: seed {} used an un-modelled call: {:?}", seed, sim.unmodelled);
            bad += 1;
            continue;
        }
        if std::env::var("VERIF_SELFTEST_SHOW").ok().and_then(|v| v.parse::<u64>().ok()) == Some(seed) {
            for (a, b) in sim_lines.iter().zip(real_lines.iter()) {
                println!("{} {}\n    real: {}", if a == b { " " } else { "!" }, a, b);
            }
        }
        if sim_lines != real_lines {
            bad += 1;
            if bad <= 5 {
                println!("selftest-simfs: seed {} disagrees with the kernel:", seed);
                for (a, b) in sim_lines.iter().zip(real_lines.iter()) {
                    if a != b {
                        println!("  sim : {}\n  real: {}", a, b);
                        break;
                    }
                }
            }
        }
    }
    let _ = std::fs::remove_dir_all(&real_root);
    if bad == 0 {
        println!("selftest-simfs: {} sequences, {} operations: SimFs and the kernel file system agree on every result and every final tree", n, ops_total);
        0
    } else {
        println!("HARNESS-ERROR selftest-simfs: {} of {} sequences disagree", bad, n);
        2
    }
}
