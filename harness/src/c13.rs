//! fxsim / configs `history` and `history+faults` — C13: the exchange-rate
//! cache never changes an answer.
//!
//! System: a history of 1..8 simulated processes on successive simulated days
//! sharing one persistent cache (the real CsvRatesCache over SimFs, or the
//! real InMemoryRatesCache whose map the harness carries from process to
//! process), each with its own today / published-today / force flag / look-up
//! order; the real RateLoader + JsonRemoteRateLoader over SimBoC.
//! Oracle: every look-up equals the same look-up by the real code with no
//! cache on the same server snapshot; download counters per run and year.

use crate::common::*;
use crate::fx::*;
use crate::prng::{fnv64, fnv64_add, Rng};
use crate::simfs::Knobs;
use serde::{Deserialize, Serialize};
use serde_json::{json, Value};
use std::collections::{BTreeMap, BTreeSet};
use std::sync::Arc;
use time::{Date, Duration};

#[derive(Clone, Debug, Serialize, Deserialize, PartialEq)]
pub struct Run {
    pub today: String,
    pub published_today: bool,
    pub force: bool,
    pub app_path: bool,
    /// application path only: per look-up the row variant (0 USD without rate; 1 USD with explicit
    /// rate = no look-up; 2 CAD trade with USD commission without rate; 3 USD trade and USD
    /// commission, both without rate = the same date looked up twice) and the number of CSV files.
    #[serde(default)]
    pub row_kinds: Vec<u8>,
    #[serde(default)]
    pub app_files: usize,
    pub lookups: Vec<String>,
    pub net_faults: Vec<Option<String>>,
    pub fs_faults: FsFaultSpec,
    pub hash_seed: u64,
    /// The run is killed at a point of its journalled file-system activity chosen from this seed:
    /// only a prefix of what it did to the disk survives (the last write possibly cut); an in-memory
    /// cache keeps nothing of it. The history goes on.
    #[serde(default)]
    pub kill_seed: Option<u64>,
    /// This run happens in the same long-lived process as the previous one (the web application:
    /// one page, several recalculations, each with a loader of its own): statics and thread-locals
    /// of the previous run are still there. Ignored after a killed run.
    #[serde(default)]
    pub same_process: bool,
}

#[derive(Clone, Debug, Serialize, Deserialize, PartialEq)]
pub struct Sc {
    pub cal: Calendar,
    pub format: JsonFormat,
    pub cache: CacheKind,
    pub max_write: usize,
    pub max_read: usize,
    pub faulty: bool,
    /// every n-th read()/write() on a simulated file is interrupted (EINTR) first; 0 = never.
    /// Never generated: acb installs no signal handlers, so a read or write of a regular file
    /// cannot return EINTR in a deployment (DESIGN 10); kept for experiments via a replay file.
    #[serde(default)]
    pub eintr_every: u32,
    /// Some(h): every run learns "today" from the simulated system clock and TZ (h hours west of
    /// UTC) through the real today_local(), not through the library's test override.
    #[serde(default)]
    pub clock_tz: Option<i8>,
    /// The cache directory is a symbolic link into another directory (a synchronised folder) for the whole history.
    #[serde(default)]
    pub cache_dir_link: bool,
    pub runs: Vec<Run>,
}

fn frontier_after(boc: &BocData, today: Date, pt: bool, year: i32) -> Date {
    let end = ymd(year, 12, 31);
    let f = if boc.in_snapshot(today, today, pt) { today } else { today - Duration::days(1) };
    f.min(end)
}

pub fn generate(seed: u64, index: u64) -> Sc {
    let mut r = Rng::new(seed);
    let cal = gen_calendar(&mut r);
    let format = gen_format(&mut r);
    let boc = BocData::new(&cal, &format, &[]);
    let faulty = index % 3 == 2;
    let cache = if r.chance(2, 3) { CacheKind::Csv } else { CacheKind::Mem };
    let n_runs = r.weighted(&[1, 4, 5, 4, 3, 2, 1, 1]) + 1;
    let mut today = gen_today(&mut r, &boc);
    // leave room for the history
    let last = boc.last_day();
    if (last - today).whole_days() < 30 {
        today = last - Duration::days(r.range(30, 200));
    }
    let mut pt = r.chance(1, 2);
    let mut frontier: BTreeMap<i32, Date> = BTreeMap::new();
    let mut asked: Vec<Date> = vec![];
    let mut runs = vec![];
    for i in 0..n_runs {
        if i > 0 {
            let gap = match r.weighted(&[3, 3, 2, 2, 4, 3, 1]) {
                0 => 0,
                1 => 1,
                2 => 2,
                3 => 3,
                4 => r.range(4, 10),
                5 => r.range(11, 40),
                _ => r.range(340, 380),
            };
            // now and then the history steps exactly onto New Year's Eve, and from there onto New Year's Day
            let next = if today.month() == time::Month::December && today.day() == 31 && r.chance(1, 2) {
                today + Duration::days(1)
            } else if r.chance(1, 14) && ymd(today.year(), 12, 31) > today {
                ymd(today.year(), 12, 31)
            } else {
                today + Duration::days(gap)
            };
            let gap = (next - today).whole_days();
            if next <= last + Duration::days(1) {
                if gap == 0 {
                    pt = pt || r.chance(1, 2);
                } else {
                    pt = r.chance(1, 2);
                }
                today = next;
            } else {
                pt = pt || r.chance(1, 2);
            }
        }
        let force = r.chance(3, 20);
        // 1-8 look-ups, now and then up to 14 (spanning every year of the calendar)
        let n_lookups = if r.chance(1, 12) { r.range(9, 14) } else { r.range(1, 8) };
        let mut lookups: Vec<Date> = vec![];
        for _ in 0..n_lookups {
            let d = match r.weighted(&[4, 6, 2, 2, 2]) {
                0 => today + Duration::days(r.range(-9, 2)),
                1 => {
                    if frontier.is_empty() {
                        today - Duration::days(r.range(0, 12))
                    } else {
                        let ys: Vec<i32> = frontier.keys().copied().collect();
                        let y = *r.pick(&ys);
                        frontier[&y] + Duration::days(r.range(-3, 9))
                    }
                }
                2 => {
                    let y = today.year() - r.range(0, 1) as i32;
                    if r.chance(1, 2) {
                        ymd(y, 1, 1) + Duration::days(r.range(0, 8))
                    } else {
                        ymd(y, 12, 31) - Duration::days(r.range(0, 8))
                    }
                }
                3 => {
                    if asked.is_empty() {
                        today - Duration::days(r.range(0, 30))
                    } else {
                        *r.pick(&asked) + Duration::days(r.range(-1, 1))
                    }
                }
                _ => interesting_date(&mut r, &boc, today),
            };
            let d = d.max(ymd(cal.start_year, 1, 1));
            lookups.push(d);
        }
        match r.below(4) {
            0 => lookups.sort(),
            1 => {
                lookups.sort();
                lookups.reverse();
            }
            _ => {}
        }
        // predicted cache evolution (heuristic, only steers generation)
        for d in &lookups {
            let y = d.year();
            let covered = frontier.get(&y).map(|f| *d <= *f).unwrap_or(false);
            if !covered || force {
                frontier.insert(y, frontier_after(&boc, today, pt, y));
            }
            asked.push(*d);
        }
        let mut net_faults = vec![];
        let mut fs_faults = FsFaultSpec::default();
        if faulty {
            for _ in 0..8 {
                net_faults.push(if r.chance(1, 4) { Some(r.pick(&NET_FAULT_KINDS).to_string()) } else { None });
            }
            if r.chance(1, 4) {
                match r.below(7) {
                    0 => fs_faults.open_write_errno = Some(libc::EACCES),
                    1 => match r.weighted(&[3, 2, 3]) {
                        0 => fs_faults.enospc_after_bytes = Some(r.range(0, 9000) as u64),
                        // just past a buffer boundary of csv::Writer / BufWriter: the error then hits the final flush
                        1 => fs_faults.enospc_after_bytes = Some(*r.pick(&[8192u64, 16384]) + r.range(0, 80) as u64),
                        // inside the last rows of whatever the run writes
                        _ => fs_faults.enospc_before_end = Some(r.range(1, 70) as u64),
                    },
                    2 => fs_faults.rename_errno = Some(libc::EIO),
                    3 => fs_faults.mkdir_errno = Some(libc::EACCES),
                    4 => {
                        fs_faults.fsync_errno = Some(libc::EIO);
                        if r.chance(1, 2) {
                            // the write-back failed: only a prefix of the un-synced data is on the medium
                            fs_faults.fsync_error_keeps = Some(r.range(0, 9000) as u64);
                        }
                    }
                    5 => fs_faults.open_read_errno = Some(libc::EACCES),
                    _ => fs_faults.read_errno = Some(libc::EIO),
                }
            }
        }
        let app_path = r.chance(1, 3);
        let row_kinds: Vec<u8> = if app_path { lookups.iter().map(|_| r.weighted(&[6, 2, 2, 2]) as u8).collect() } else { vec![] };
        let app_files = if app_path { r.range(1, 3) as usize } else { 1 };
        runs.push(Run {
            today: today.to_string(),
            published_today: pt,
            force,
            app_path,
            row_kinds,
            app_files,
            lookups: lookups.iter().map(|d| d.to_string()).collect(),
            net_faults,
            fs_faults,
            hash_seed: r.next_u64(),
            kill_seed: if faulty && r.chance(1, 8) { Some(r.next_u64()) } else { None },
            // (its own stream: the rest of the history is what it was before this knob existed)
            same_process: i > 0 && Rng::new(crate::prng::mix(seed, 0x5E55, i as u64)).chance(1, 4),
        });
    }
    Sc { cal, format, cache, max_write: *r.pick(&[usize::MAX, usize::MAX, 4096, 512, 7]), max_read: *r.pick(&[usize::MAX, usize::MAX, 4096, 512, 7]), faulty, runs, eintr_every: 0, clock_tz: if r.chance(1, 4) { Some(*r.pick(&[5i8, 8, 12, -1, -9, -13])) } else { None }, cache_dir_link: Rng::new(crate::prng::mix(seed, 0x11CC, 13)).chance(1, 8) }
}

fn bucket(n: i64) -> &'static str {
    match n {
        i64::MIN..=-8 => "<=-8",
        -7..=-1 => "-7..-1",
        0 => "0",
        1..=7 => "1..7",
        _ => ">=8",
    }
}

pub struct C13;

impl Engine for C13 {
    type Sc = Sc;
    fn property(&self) -> &'static str {
        "C13"
    }
    fn engine_name(&self) -> &'static str {
        "fxsim/history"
    }
    fn lane(&self) -> u64 {
        13
    }
    fn budget(&self, tier: Tier) -> (u64, u64) {
        match tier {
            Tier::Quick => (24_000, 70),
            Tier::Thorough => (600_000, 1500),
        }
    }
    fn generate(&self, seed: u64, index: u64, _tier: Tier) -> Sc {
        generate(seed, index)
    }

    fn execute(&self, sc: &Sc, st: &mut Stats) -> ExecOut {
        let boc = Arc::new(BocData::new(&sc.cal, &sc.format, &[]));
        let mut reference = Reference::new(boc.clone());
        let mut violations: Vec<Violation> = vec![];
        let mut digest = fnv64(b"c13");
        let mut nontrivial = false;
        crate::interpose::with_world(|w| w.fs.disk = crate::simfs::Disk::new());
        if sc.cache_dir_link && sc.cache == CacheKind::Csv {
            crate::interpose::with_world(|w| {
                w.fs.disk.put_dir("/simfs/home/sync/acb");
                w.fs.disk.put_symlink(cache_dir_key(), if sc.max_write == usize::MAX { "sync/acb" } else { "/simfs/home/sync/acb" });
            });
            st.bump("probe.cache_directory_is_a_symbolic_link");
        }
        let mut mem: MemState = MemState::new();
        let mut push = |v: Violation, violations: &mut Vec<Violation>| {
            if !violations.iter().any(|x| x.kind == v.kind && x.signature == v.signature) {
                violations.push(v);
            }
        };
        let mut prev_today: Option<(Date, bool)> = None;
        let mut fs_fault_seen_before = false;
        let mut after_kill_dates: Vec<Date> = vec![];
        let mut last_now: Option<i64> = None;
        // years whose persisted copy a disturbed or killed run was rewriting: what the harness reads
        // in the file is not necessarily what a (verifying) reader accepts, until an undisturbed run
        // downloads the year again
        let mut suspect_years: BTreeSet<i32> = BTreeSet::new();
        if sc.clock_tz.is_some() {
            st.bump("probe.history_with_today_from_the_system_clock");
        }
        // year -> (today, published_today) of the latest successful download of that year by a run
        // whose cache write was not disturbed by an injected file-system error
        let mut downloaded_on: BTreeMap<i32, (Date, bool)> = BTreeMap::new();
        crate::proc::end_session();
        struct SessionGuard;
        impl Drop for SessionGuard {
            fn drop(&mut self) {
                crate::proc::end_session();
            }
        }
        let _session_guard = SessionGuard;
        let mut session_start = 0usize;
        let mut prev_killed = false;
        for (ri, run) in sc.runs.iter().enumerate() {
            // which long-lived process (if any) this run belongs to
            let continues = ri > 0 && run.same_process && !prev_killed;
            if !continues {
                session_start = ri;
            }
            let next_continues = sc.runs.get(ri + 1).map(|n| n.same_process).unwrap_or(false) && run.kill_seed.is_none();
            let session = if continues || next_continues { Some(crate::prng::mix(sc.runs[0].hash_seed, session_start as u64, 0x5E55) >> 1) } else { None };
            if continues {
                st.bump("probe.run_in_the_same_long_lived_process_as_the_previous_one");
                if pd(&sc.runs[ri - 1].today) == pd(&run.today) && !sc.runs[ri - 1].published_today && run.published_today {
                    st.bump("probe.same_process_same_day_and_the_days_rate_was_published_in_between");
                }
            }
            prev_killed = false;
            let today = pd(&run.today);
            let pt = run.published_today;
            let mut lookups: Vec<Date> = run.lookups.iter().map(|s| pd(s)).collect();
            let mut n_pre = 0usize;
            if !after_kill_dates.is_empty() {
                // the run after a kill first asks for the last dates found in whatever rates-* files
                // survived (an adversarial choice made from the disk, as in C14) - not beyond its own today
                let mut pre: Vec<Date> = vec![];
                for d in after_kill_dates.drain(..) {
                    if d <= today && !pre.contains(&d) && pre.len() < 4 {
                        pre.push(d);
                    }
                }
                n_pre = pre.len();
                pre.extend(lookups.iter().copied());
                lookups = pre;
                st.bump("probe.run_after_a_kill_asks_for_the_last_surviving_dates");
            }
            let persisted = persisted_dates(&sc.cache, &mem);
            let suspect_at_start = suspect_years.clone();
            if let Some((pday, ppt)) = prev_today {
                st.add("sim.days", (today - pday).whole_days().max(0) as u64);
                if pday.year() != today.year() {
                    st.bump("probe.year_rollover_between_runs");
                }
                if pday == today && !ppt && pt {
                    st.bump("probe.today_unpublished_then_published_in_later_run");
                }
            }
            prev_today = Some((today, pt));
            if run.force {
                st.bump("probe.forced_run");
            }
            if run.app_path {
                st.bump("probe.app_path_run");
            }
            let shown: Vec<String> = lookups.iter().map(|d| d.to_string()).collect();
            let kind_of = |i: usize| -> u8 { if i < n_pre { 0 } else { run.row_kinds.get(i - n_pre).copied().unwrap_or(0) } };
            let app_rows: Option<Vec<AppRow>> = if run.app_path {
                Some(
                    lookups
                        .iter()
                        .enumerate()
                        .map(|(i, d)| {
                            let mut row = AppRow::usd(&d.to_string());
                            match kind_of(i) {
                                1 => row.fx = Some(format!("1.{:04}", 1000 + (i * 37) % 3000)),
                                2 => {
                                    row.cur = Some("CAD".into());
                                    row.commission = true;
                                    row.ccur = Some("USD".into());
                                }
                                3 => {
                                    row.commission = true;
                                    row.ccur = Some("USD".into());
                                }
                                _ => {}
                            }
                            row
                        })
                        .collect(),
                )
            } else {
                None
            };
            if run.app_path && run.app_files > 1 {
                st.bump("probe.app_path_several_files_one_loader");
            }
            // the clock never runs backwards within a history: a later run of the same day starts
            // 30 s .. 1.5 h after the previous one (file modification times are on this clock)
            let now_shift = {
                let mut probe = crate::proc::ProcEnv::new(run.hash_seed, today);
                probe.clock_tz_hours_west = sc.clock_tz;
                let cand = probe.now_unix();
                // ... but never past the end of the run's own (local) day
                let day_end = cand - probe.now_unix_secs_into_local_day() + 86_399;
                match last_now {
                    Some(l) if cand <= l => (l + 30 + (run.hash_seed % 5_400) as i64).min(day_end).max(cand) - cand,
                    _ => 0,
                }
            };
            {
                let mut probe = crate::proc::ProcEnv::new(run.hash_seed, today);
                probe.clock_tz_hours_west = sc.clock_tz;
                probe.now_shift = now_shift;
                if let Some(l) = last_now {
                    if probe.now_unix() - l < 3_600 {
                        st.bump("probe.run_within_an_hour_of_the_previous_run");
                    }
                }
                last_now = Some(probe.now_unix());
            }
            let disk_before_run = if run.kill_seed.is_some() { Some(crate::interpose::with_world(|w| w.fs.disk.clone())) } else { None };
            let mut fs_faults = run.fs_faults.clone();
            if let Some(k) = fs_faults.enospc_before_end {
                // dry run on a copy of the world: how many bytes would this run write?
                let saved = crate::interpose::with_world(|w| w.fs.disk.clone());
                let mut dry_faults = fs_faults.clone();
                dry_faults.enospc_before_end = None;
                let dry = run_fx_process(FxPlan {
                    data: boc.clone(),
                    today,
                    published_today: pt,
                    force: run.force,
                    cache: sc.cache.clone(),
                    mem_in: mem.clone(),
                    lookups: lookups.clone(),
                    app_rows: app_rows.clone(),
                    app_files: run.app_files.max(1),
                    app_console: false,
                    app_legacy_date: false,
                    app_date_fmt: 0,
                    net_faults: run.net_faults.clone(),
                    server_today: None,
                    clock_tz: sc.clock_tz,
                    now_shift,
                    session: Some(u64::MAX),
                    fs_faults: dry_faults,
                    knobs: Knobs { max_write: sc.max_write, max_read: sc.max_read, eintr_every: sc.eintr_every },
                    hash_seed: run.hash_seed,
                });
                crate::interpose::with_world(|w| w.fs.disk = saved);
                st.bump("sim.processes");
                let total: u64 = dry.proc.journal.iter().map(|o| if let crate::simfs::Op::Write { data, .. } = o { data.len() as u64 } else { 0 }).sum();
                fs_faults.enospc_before_end = None;
                if total > k {
                    fs_faults.enospc_after_bytes = Some(total - k);
                    st.bump("fault.fs_enospc_inside_the_last_rows_armed");
                }
            }
            let obs = run_fx_process(FxPlan {
                data: boc.clone(),
                today,
                published_today: pt,
                force: run.force,
                cache: sc.cache.clone(),
                mem_in: mem.clone(),
                lookups: lookups.clone(),
                app_rows,
                app_files: run.app_files.max(1),
                app_console: false,
                app_legacy_date: false,
                app_date_fmt: 0,
                net_faults: run.net_faults.clone(),
                server_today: None,
                clock_tz: sc.clock_tz,
                now_shift,
                session,
                fs_faults: fs_faults.clone(),
                knobs: Knobs { max_write: sc.max_write, max_read: sc.max_read, eintr_every: sc.eintr_every },
                hash_seed: run.hash_seed,
            });
            st.bump("sim.processes");
            if sc.cache == CacheKind::Mem && obs.panic.is_none() && run.kill_seed.is_none() {
                mem = obs.mem_out.clone();
            }
            let mut killed = false;
            if let (Some(ks), Some(before)) = (run.kill_seed, disk_before_run) {
                // the process dies: only a prefix of its file-system activity survives
                let j = &obs.proc.journal;
                let mut kr = Rng::new(ks);
                let k = kr.range(0, j.len() as i64) as usize;
                let cut = match j.get(k) {
                    Some(crate::simfs::Op::Write { data, .. }) if data.len() > 1 && kr.chance(2, 3) => {
                        if data.len() > 40 && kr.chance(1, 2) { data.len() - 1 - kr.range(0, 39) as usize } else { kr.range(1, data.len() as i64 - 1) as usize }
                    }
                    _ => 0,
                };
                let survived = crate::simfs::Disk::crash_state(&before, j, k, cut);
                after_kill_dates = crate::c14::tail_dates(&survived);
                crate::interpose::with_world(|w| w.fs.disk = survived);
                killed = true;
                prev_killed = true;
                st.bump("fault.run_killed_mid_history");
                if j.iter().any(|o| matches!(o, crate::simfs::Op::Write { .. })) {
                    st.bump("fault.run_killed_while_it_wrote_the_cache");
                }
            }
            for (k, n) in &obs.proc.fs_faults_fired {
                st.add(&format!("fault.fs_{}", k), *n);
            }
            st.add("fault.legal_short_writes", obs.proc.short_writes);
            st.add("fault.legal_short_reads", obs.proc.short_reads);
            st.add("fault.legal_eintr_on_read_or_write", obs.proc.eintrs);
            for rq in &obs.requests {
                if let Some(f) = &rq.fault {
                    st.bump(&format!("fault.net_{}", f));
                }
            }
            if !obs.proc.unmodelled.is_empty() {
                st.harness_error(format!("unmodelled call: {:?}", obs.proc.unmodelled));
            }
            let fs_fault_fired = !obs.proc.fs_faults_fired.is_empty();
            let stderr_txt = String::from_utf8_lossy(&obs.stderr);
            if !sc.faulty && stderr_txt.contains("os error") {
                // not an error by itself (an implementation may well report a file it did not find); the
                // fail-closed detector proper is the list of un-modelled calls, and a simulated disk that
                // did not work would show in the reach probes
                st.bump("note.os_error_text_on_stderr_of_a_fault_free_run");
            }
            digest = fnv64_add(digest, &[ri as u8]);
            if let Some(p) = &obs.panic {
                push(Violation { kind: "panic".into(), signature: "panic in cached look-up".into(), detail: format!("run {} (today {}): {}", ri, today, p) }, &mut violations);
                digest = fnv64_add(digest, p.as_bytes());
                continue;
            }

            // ---- reference answers (real code, no cache) and touched dates (model)
            let refs: Vec<_> = lookups.iter().map(|d| reference.lookup(today, pt, *d)).collect();
            st.add("sim.processes", 0);
            // look-ups actually attempted: the application stops at the first failing row
            let needs_lookup = |i: usize| -> bool { !(run.app_path && kind_of(i) == 1) };
            let attempted = if run.app_path { (0..refs.len()).position(|i| needs_lookup(i) && refs[i].is_err()).map(|i| i + 1).unwrap_or(refs.len()) } else { refs.len() };
            let mut needed_years: BTreeSet<i32> = BTreeSet::new();
            // years in which the run's look-ups need any date at all: the download clauses of C13
            // speak of "the requested date", so a request for a year no look-up needs is not judged
            let mut touched_years: BTreeSet<i32> = BTreeSet::new();
            let mut loaded_from_cache: BTreeSet<i32> = BTreeSet::new();
            let mut miss_after_cache_load = false;
            for (i, d) in lookups.iter().enumerate().take(attempted) {
                if !needs_lookup(i) {
                    continue;
                }
                let touched = ref_touched(&boc, today, pt, *d);
                for x in &touched {
                    let y = x.year();
                    touched_years.insert(y);
                    let have = persisted.get(&y).map(|s| s.contains(x)).unwrap_or(false);
                    if !have {
                        needed_years.insert(y);
                        if loaded_from_cache.contains(&y) && !run.force {
                            miss_after_cache_load = true;
                        }
                    } else if !run.force {
                        if !needed_years.contains(&y) {
                            loaded_from_cache.insert(y);
                        }
                        if y != d.year() {
                            st.bump("probe.lookback_into_year_cached_by_earlier_run");
                        }
                    }
                }
            }
            if miss_after_cache_load {
                st.bump("probe.miss_in_year_first_loaded_from_cache");
                nontrivial = true;
            }
            if !persisted.is_empty() {
                nontrivial = true;
            }

            // ---- oracle 1: answers
            let net_fault_in = |from: usize, to: usize| obs.requests[from.min(obs.requests.len())..to.min(obs.requests.len())].iter().any(|r| r.fault.is_some());
            let classify = |d: Date| -> String {
                let y = d.year();
                let in_cache = persisted.get(&y).map(|s| s.contains(&d)).unwrap_or(false);
                let base = if !run.force && !in_cache && persisted.contains_key(&y) && miss_after_cache_load {
                    "stale answer after a miss in a year first loaded from cache by an earlier look-up of the same run"
                } else if in_cache {
                    "cached year gives a different answer"
                } else {
                    "answer differs from the no-cache look-up"
                };
                if fs_fault_fired || fs_fault_seen_before {
                    format!("{} (after an injected file-system error)", base)
                } else {
                    base.to_string()
                }
            };
            if run.app_path {
                let any_net_fault = obs.requests.iter().any(|r| r.fault.is_some());
                let expect_ok = (0..refs.len()).all(|i| !needs_lookup(i) || refs[i].is_ok());
                let got = obs.app.clone().unwrap_or(Err("no result".into()));
                digest = fnv64_add(digest, format!("{:?}", got.as_ref().map(|v| v.iter().map(|r| r.tx_rate.to_string()).collect::<Vec<_>>())).as_bytes());
                match (&got, expect_ok) {
                    (Ok(rates), true) => {
                        for rr in rates {
                            if rr.row < refs.len() {
                                let k = kind_of(rr.row);
                                if k == 1 {
                                    continue; // explicit rate: no look-up involved
                                }
                                let (_, er) = refs[rr.row].clone().unwrap();
                                // kind 2: the looked-up rate is the commission's; kind 3: both
                                let observed = if k == 2 { rr.comm_rate } else { rr.tx_rate };
                                if observed != er || (k == 3 && rr.comm_rate != er) {
                                    let d = lookups[rr.row];
                                    push(Violation { kind: "answer_differs".into(), signature: classify(d), detail: format!("run {} (today {}, published_today {}, force {}, application path) row {} (variant {}) trade date {}: with cache rate {} / commission rate {}, without cache {}", ri, today, pt, run.force, rr.row, k, d, rr.tx_rate, rr.comm_rate, show_answer(&refs[rr.row])) }, &mut violations);
                                }
                            }
                        }
                    }
                    (Ok(_), false) => {
                        let i = (0..refs.len()).position(|i| needs_lookup(i) && refs[i].is_err()).unwrap();
                        push(Violation { kind: "answer_differs".into(), signature: classify(lookups[i]), detail: format!("run {} (today {}, application path): without cache the look-up of {} fails ({}), with cache the run succeeded", ri, today, lookups[i], show_answer(&refs[i])) }, &mut violations);
                    }
                    (Err(e), true) => {
                        if !any_net_fault {
                            push(Violation { kind: "answer_differs".into(), signature: classify(lookups[0]), detail: format!("run {} (today {}, application path): every look-up succeeds without cache, with cache the run failed: {}", ri, today, e.lines().next().unwrap_or("")) }, &mut violations);
                        } else {
                            st.bump("probe.error_tolerated_during_net_fault");
                        }
                    }
                    (Err(_), false) => {}
                }
            } else {
                for (li, lo) in obs.lookups.iter().enumerate() {
                    let expect = &refs[li];
                    digest = fnv64_add(digest, show_answer(&lo.result).as_bytes());
                    let y = lo.date.year();
                    let fr = persisted.get(&y).and_then(|s| s.iter().next_back().copied());
                    let fo = fr.map(|f| bucket((lo.date - f).whole_days())).unwrap_or("none");
                    let oc = match &lo.result {
                        Ok((d, _)) if *d == lo.date => "ok0",
                        Ok(_) => "ok_lookback",
                        Err(_) => "err",
                    };
                    st.state(&[fo, bucket((lo.date - today).whole_days()), if pt { "p" } else { "u" }, if run.force { "f" } else { "-" }, if loaded_from_cache.contains(&y) { "c" } else { "-" }, oc]);
                    if same_answer(&lo.result, expect) {
                        continue;
                    }
                    // A failed download may also fail the run's later look-ups (an implementation need not
                    // retry within a run): an Err is tolerated once a network fault has fired in this run.
                    if lo.result.is_err() && net_fault_in(0, lo.req_to) {
                        st.bump("probe.error_tolerated_during_net_fault");
                        continue;
                    }
                    push(Violation { kind: "answer_differs".into(), signature: classify(lo.date), detail: format!("run {} (today {}, published_today {}, force {}, {:?} cache) look-up #{} of {}: with cache {}, without cache {}\n  look-ups of this run: {:?}\n  cached year {} held dates up to {:?} at the start of the run", ri, today, pt, run.force, sc.cache, li, lo.date, show_answer(&lo.result), show_answer(expect), shown, y, fr.map(|d| d.to_string())) }, &mut violations);
                }
            }

            // ---- oracle 3b: coverage by history. A year downloaded by an earlier run on day T covers
            // every date before T (its rate, or the fact that none was published, was final then),
            // and T itself if T's rate was in that download. A later, unforced run must not download
            // the year for dates that download covered - whatever the cache file looks like.
            let read_fault_now = obs.proc.fs_faults_fired.contains_key("open_read_error") || obs.proc.fs_faults_fired.contains_key("read_error");
            if !run.force && !read_fault_now {
                let mut needed_by_history: BTreeSet<i32> = BTreeSet::new();
                for (i, d) in lookups.iter().enumerate().take(attempted) {
                    if !needs_lookup(i) {
                        continue;
                    }
                    for x in ref_touched(&boc, today, pt, *d) {
                        let covered = match downloaded_on.get(&x.year()) {
                            Some((t, p)) => x < *t || (x == *t && boc.in_snapshot(x, *t, *p)),
                            None => false,
                        };
                        if !covered {
                            needed_by_history.insert(x.year());
                        }
                    }
                }
                for rq in &obs.requests {
                    if rq.url_ok && touched_years.contains(&rq.year) && !needed_by_history.contains(&rq.year) && downloaded_on.contains_key(&rq.year) {
                        let (t, _) = downloaded_on[&rq.year];
                        push(Violation { kind: "unneeded_download".into(), signature: "download although an earlier run's download of that year already covered every requested date".into(), detail: format!("run {} (today {}, not forced, {:?} cache): request for {} although an earlier run downloaded that year successfully on {} and every date the look-ups {:?} need in it lies before that day\n  cached year {} held dates up to {:?} at the start of this run", ri, today, sc.cache, rq.year, t, shown, rq.year, persisted.get(&rq.year).and_then(|s| s.iter().next_back().map(|d| d.to_string()))) }, &mut violations);
                    }
                }
            }
            // remember successful downloads whose cache write was not disturbed
            // ANY injected file-system error of the run may have disturbed its cache write (a write
            // procedure may read its temporary file back to verify it: a read error then aborts the
            // write - seen with a property-preserving alternative implementation, DESIGN 6.4)
            let write_fault_now = !obs.proc.fs_faults_fired.is_empty();
            if !write_fault_now && !fs_faults.enospc_after_bytes.is_some() && !killed {
                for rq in &obs.requests {
                    if rq.ok {
                        downloaded_on.insert(rq.year, (today, pt));
                    }
                }
                for rq in &obs.requests {
                    if rq.ok {
                        suspect_years.remove(&rq.year);
                    }
                }
            } else {
                for rq in &obs.requests {
                    suspect_years.insert(rq.year);
                }
                // A disturbed or killed run may legitimately have destroyed what an earlier run left for
                // the years it was rewriting (an implementation that writes in place and verifies a
                // checksum on reading is correct too): those years are no longer known to be covered.
                for rq in &obs.requests {
                    downloaded_on.remove(&rq.year);
                }
            }

            // ---- oracle 2 and 3: download counters
            let mut ok_by_year: BTreeMap<i32, u32> = BTreeMap::new();
            for rq in &obs.requests {
                if rq.ok {
                    *ok_by_year.entry(rq.year).or_insert(0) += 1;
                }
                let read_fault = obs.proc.fs_faults_fired.contains_key("open_read_error") || obs.proc.fs_faults_fired.contains_key("read_error");
                if !run.force && rq.url_ok && touched_years.contains(&rq.year) && !needed_years.contains(&rq.year) && !read_fault && !suspect_at_start.contains(&rq.year) {
                    push(Violation { kind: "unneeded_download".into(), signature: "download although the cached year covers every requested date".into(), detail: format!("run {} (today {}, not forced): request for {} although every date the look-ups {:?} need in that year was in the cache at the start of the run", ri, today, rq.year, shown) }, &mut violations);
                }
            }
            for (y, n) in &ok_by_year {
                if *n > 1 {
                    push(Violation { kind: "redundant_download".into(), signature: "year downloaded more than once in one run".into(), detail: format!("run {} (today {}, force {}): year {} downloaded successfully {} times; look-ups {:?}", ri, today, run.force, y, n, shown) }, &mut violations);
                }
            }
            if obs.requests.is_empty() && !lookups.is_empty() {
                st.bump("probe.run_served_entirely_from_cache");
            }
            st.add("probe.downloads", obs.requests.iter().filter(|r| r.ok).count() as u64);
            if fs_fault_fired {
                fs_fault_seen_before = true;
            }
        }
        st.add("sim.reference_processes", reference.evaluated);
        st.add("sim.processes", reference.evaluated);
        ExecOut { violations, digest, nontrivial }
    }

    fn shrink(&self, sc: &Sc) -> Vec<Sc> {
        let mut c = vec![];
        for i in 0..sc.runs.len() {
            if sc.runs.len() > 1 {
                let mut s = sc.clone();
                s.runs.remove(i);
                c.push(s);
            }
        }
        if sc.cache_dir_link {
            let mut s = sc.clone();
            s.cache_dir_link = false;
            c.push(s);
        }
        if sc.runs.len() > 2 {
            let mut s = sc.clone();
            s.runs.truncate(sc.runs.len() / 2 + 1);
            c.push(s);
        }
        for (i, run) in sc.runs.iter().enumerate() {
            for j in 0..run.lookups.len() {
                if run.lookups.len() > 1 {
                    let mut s = sc.clone();
                    s.runs[i].lookups.remove(j);
                    if j < s.runs[i].row_kinds.len() {
                        s.runs[i].row_kinds.remove(j);
                    }
                    c.push(s);
                }
            }
            if run.app_path {
                let mut s = sc.clone();
                s.runs[i].app_path = false;
                s.runs[i].row_kinds.clear();
                s.runs[i].app_files = 1;
                c.push(s);
                if run.app_files > 1 {
                    let mut s = sc.clone();
                    s.runs[i].app_files = 1;
                    c.push(s);
                }
                if run.row_kinds.iter().any(|k| *k != 0) {
                    let mut s = sc.clone();
                    s.runs[i].row_kinds.clear();
                    c.push(s);
                }
            }
            if run.force {
                let mut s = sc.clone();
                s.runs[i].force = false;
                c.push(s);
            }
            if run.net_faults.iter().any(|f| f.is_some()) {
                let mut s = sc.clone();
                s.runs[i].net_faults.clear();
                c.push(s);
                for k in 0..run.net_faults.len() {
                    if run.net_faults[k].is_some() {
                        let mut s = sc.clone();
                        s.runs[i].net_faults[k] = None;
                        c.push(s);
                    }
                }
            } else if !run.net_faults.is_empty() {
                let mut s = sc.clone();
                s.runs[i].net_faults.clear();
                c.push(s);
            }
            if !run.fs_faults.is_none() {
                let mut s = sc.clone();
                s.runs[i].fs_faults = FsFaultSpec::default();
                c.push(s);
            }
            if run.kill_seed.is_some() {
                let mut s = sc.clone();
                s.runs[i].kill_seed = None;
                c.push(s);
            }
        }
        if sc.max_write != usize::MAX || sc.max_read != usize::MAX {
            let mut s = sc.clone();
            s.max_write = usize::MAX;
            s.max_read = usize::MAX;
            c.push(s);
        }
        if sc.eintr_every != 0 {
            let mut s = sc.clone();
            s.eintr_every = 0;
            c.push(s);
        }
        if sc.clock_tz.is_some() {
            let mut s = sc.clone();
            s.clock_tz = None;
            c.push(s);
        }
        if sc.cache == CacheKind::Csv {
            let mut s = sc.clone();
            s.cache = CacheKind::Mem;
            c.push(s);
        }
        for i in 0..sc.cal.gaps.len() {
            let mut s = sc.clone();
            s.cal.gaps.remove(i);
            c.push(s);
        }
        if sc.cal.holidays.len() > 4 {
            let mut s = sc.clone();
            s.cal.holidays.truncate(sc.cal.holidays.len() / 2);
            c.push(s);
            let mut s = sc.clone();
            s.cal.holidays.drain(..sc.cal.holidays.len() / 2);
            c.push(s);
        }
        for i in 0..sc.cal.holidays.len().min(40) {
            let mut s = sc.clone();
            s.cal.holidays.remove(i);
            c.push(s);
        }
        if sc.format != JsonFormat::default() {
            let mut s = sc.clone();
            s.format = JsonFormat::default();
            c.push(s);
        }
        if sc.cal.n_years > 2 {
            let mut s = sc.clone();
            s.cal.n_years -= 1;
            c.push(s);
        }
        c
    }

    fn sample(&self, sc: &Sc) -> Value {
        json!({"calendar": {"start_year": sc.cal.start_year, "years": sc.cal.n_years, "holidays": sc.cal.holidays.len(), "gaps": sc.cal.gaps},
               "cache": sc.cache, "faulty_config": sc.faulty, "max_write": if sc.max_write == usize::MAX { json!("unlimited") } else { json!(sc.max_write) },
               "runs": sc.runs.iter().map(|r| json!({"today": r.today, "published_today": r.published_today, "force": r.force, "path": if r.app_path {"application"} else {"direct"}, "lookups": r.lookups,
                    "net_faults": r.net_faults.iter().filter(|f| f.is_some()).count(), "fs_faults": if r.fs_faults.is_none() { json!(null) } else { json!(r.fs_faults) }})).collect::<Vec<_>>() })
    }
    fn hang_or_death_is_violation(&self) -> bool {
        true
    }
    fn level(&self) -> &'static str {
        "exploration"
    }
    fn rule(&self) -> String {
        "Seeded histories: a publication calendar (as for C12), then 1-8 runs; run r is a fresh simulated process on today_r = today_{r-1} + gap (gap weighted over 0,1,2,3,4-10,11-40,~365 days), with a published-today flag (monotone within a day), force flag (p=0.15), direct or application path (p=1/3; rows spread over 1-3 CSV files sharing one loader, row variants: USD without rate, USD with explicit rate, CAD trade with USD commission, USD trade + USD commission), and 1-8 look-up dates drawn relative to today (-9..+2), to the predicted frontier of each cached year (-3..+9), to year ends, to earlier look-ups, in ascending/descending/generated order; cache = real CsvRatesCache over SimFs (2/3) or real InMemoryRatesCache carried across processes (1/3); legal short reads/writes as a knob; one run in four happens inside the same long-lived process (same thread) as the run before it, so statics and thread-locals survive from run to run; in one history in eight the cache directory is a symbolic link. Two of three histories are fault-free; every third (index % 3 == 2) injects network faults (error, HTML body, truncated JSON, empty body; p=1/4 per request) and, in a quarter of its runs, one file-system fault kind (EACCES on open-for-write/mkdir/open-for-read, ENOSPC after N bytes, EIO on rename/fsync/read). One run in eight of a faulty history is killed at a seeded point of its journalled file-system activity (only that prefix survives, the last write possibly cut) and the history goes on; the run after a kill first asks for the last dates of the surviving cache files. In a quarter of the histories 'today' comes from the simulated system clock and TZ through the real today_local(). Oracle: each look-up equals the same look-up by the real code with no cache (fresh process, empty cache, forced) on the same snapshot; an Err is tolerated only for a look-up during or after which an injected network fault fired in the same run (never in a later run); successful downloads per (run, year) <= 1; when not forced, no request for a year whose needed dates (reference-model touched set) were all in the persisted cache at the start of the run, nor for a year that an earlier run downloaded successfully (cache write undisturbed) on a day after all the needed dates. evaluations = histories; distinct_nontrivial = distinct histories in which some run started from a non-empty persisted cache.".to_string()
    }
    fn state_measure(&self) -> String {
        "distinct (look-up date minus cached-year frontier bucket, date minus today bucket, published flag, force, year-loaded-from-cache-earlier-in-run, outcome class) tuples over direct look-ups".to_string()
    }
    fn assumptions(&self) -> Vec<String> {
        vec![
            "the server snapshot of a run holds every rate published for dates before that run's today, today's iff published_today; published values never change (proviso of C13)".to_string(),
            "the no-cache reference is the real code itself (fresh process, empty in-memory cache, force_download), so the check stays sound for any repair of the look-up rules (those are C12's business)".to_string(),
            "a year downloaded by an earlier run on day T (cache write undisturbed) covers every date before T, and T itself if its rate was in that download: the cache a run leaves behind must spare later runs the download for those dates (zero placeholders exist for that purpose)".to_string(),
            "'the cached year covers the requested date' is also evaluated on file content: the dates the reference model says the look-up needs (the date itself down to the date whose rate is used, or 7 days back), against the cache as persisted at the start of the run, read by the harness itself".to_string(),
            "concurrent acb processes sharing one cache directory are outside C13 (a sequence of runs) and are not simulated".to_string(),
        ]
    }
    fn real_components(&self) -> Vec<&'static str> {
        vec!["RateLoader (year_rates, fresh_loaded_years, cache validation, look-back)", "CsvRatesCache (std::fs over SimFs, csv crate)", "InMemoryRatesCache", "JsonRemoteRateLoader + parse_rates_json", "load_tx_rates / run_acb_app_to_delta_models on the application path"]
    }
    fn stub_components(&self) -> Vec<&'static str> {
        vec!["HTTP transport (SimBoC)", "kernel file system (SimFs)", "clock", "entropy", "process boundary (thread; only SimFs / the carried map survive)", "async runtime"]
    }
    fn required_probes(&self, _tier: Tier) -> Vec<&'static str> {
        vec![
            // (probes that depend on how the implementation lays out its cache - a miss in a year first
            // loaded from the cache, a look-back into a year cached by an earlier run - are reported, not required)
            "probe.today_unpublished_then_published_in_later_run",
            "probe.forced_run",
            "probe.year_rollover_between_runs",
            "probe.run_served_entirely_from_cache",
            "probe.app_path_run",
            "fault.net_http_error",
            "fault.net_http_html_body",
            "fault.net_http_truncated_json",
            "fault.net_http_empty_body",
            "fault.fs_enospc",
            "fault.fs_open_write_error",
            "fault.fs_open_read_error",
            "fault.fs_read_error",
            "probe.app_path_several_files_one_loader",
            "fault.legal_short_writes",
            "fault.run_killed_while_it_wrote_the_cache",
            "probe.run_in_the_same_long_lived_process_as_the_previous_one",
            "probe.same_process_same_day_and_the_days_rate_was_published_in_between",
            "probe.cache_directory_is_a_symbolic_link",
        ]
    }
}

pub fn warm_up() {
    for i in 0..3 {
        let sc = generate(0xC13 + i, 2);
        let mut st = Stats::default();
        let _ = C13.execute(&sc, &mut st);
    }
}
