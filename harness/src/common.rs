//! Shared engine framework: scenario generation from one integer, execution,
//! minimisation, replay files, per-worker statistics.

use crate::prng::{fnv64, fnv64_add};
use serde::{de::DeserializeOwned, Deserialize, Serialize};
use serde_json::{json, Value};
use std::collections::{BTreeMap, BTreeSet};
use std::time::Instant;

pub const DEFAULT_SEED: u64 = 20260927;

#[derive(Clone, Copy, Debug, PartialEq, Eq)]
pub enum Tier {
    Quick,
    Thorough,
}

impl Tier {
    pub fn name(self) -> &'static str {
        match self {
            Tier::Quick => "quick",
            Tier::Thorough => "thorough",
        }
    }
    pub fn parse(s: &str) -> Option<Tier> {
        match s {
            "quick" => Some(Tier::Quick),
            "thorough" => Some(Tier::Thorough),
            _ => None,
        }
    }
}

#[derive(Clone, Debug, Serialize, Deserialize, PartialEq, Eq)]
pub struct Violation {
    /// Violation class, stable under minimisation (e.g. "stdout_differs").
    pub kind: String,
    /// Specific signature matched against known_findings.json.
    pub signature: String,
    /// Human-readable observed-vs-expected.
    pub detail: String,
}

#[derive(Default, Serialize, Deserialize)]
pub struct Stats {
    pub counters: BTreeMap<String, u64>,
    /// Digests of abstract states reached (engine-defined measure).
    pub states: BTreeSet<u64>,
    /// Digests of scenarios that reached at least one probe of the property.
    pub nontrivial: BTreeSet<u64>,
    pub samples: Vec<Value>,
    pub harness_errors: Vec<String>,
}

impl Stats {
    pub fn bump(&mut self, k: &str) {
        *self.counters.entry(k.to_string()).or_insert(0) += 1;
    }
    pub fn add(&mut self, k: &str, n: u64) {
        *self.counters.entry(k.to_string()).or_insert(0) += n;
    }
    pub fn get(&self, k: &str) -> u64 {
        self.counters.get(k).copied().unwrap_or(0)
    }
    pub fn state(&mut self, parts: &[&str]) {
        let mut h = fnv64(b"state");
        for p in parts {
            h = fnv64_add(h, p.as_bytes());
            h = fnv64_add(h, &[0]);
        }
        self.states.insert(h);
    }
    pub fn harness_error(&mut self, msg: String) {
        if self.harness_errors.len() < 20 {
            self.harness_errors.push(msg);
        }
    }
    pub fn merge(&mut self, other: Stats) {
        for (k, v) in other.counters {
            *self.counters.entry(k).or_insert(0) += v;
        }
        self.states.extend(other.states);
        self.nontrivial.extend(other.nontrivial);
        for s in other.samples {
            if self.samples.len() < 6 {
                self.samples.push(s);
            }
        }
        self.harness_errors.extend(other.harness_errors);
    }
}

pub struct ExecOut {
    pub violations: Vec<Violation>,
    /// Digest of everything observed during the execution (event log).
    pub digest: u64,
    /// Did the run reach at least one probe of the property?
    pub nontrivial: bool,
}

pub trait Engine: Sync {
    type Sc: Serialize + DeserializeOwned + Clone;
    fn property(&self) -> &'static str;
    fn engine_name(&self) -> &'static str;
    fn lane(&self) -> u64;
    /// (number of scenarios, soft wall-clock budget in seconds for the run phase)
    fn budget(&self, tier: Tier) -> (u64, u64);
    fn generate(&self, seed: u64, index: u64, tier: Tier) -> Self::Sc;
    fn execute(&self, sc: &Self::Sc, st: &mut Stats) -> ExecOut;
    /// Candidate simplifications, most aggressive first.
    fn shrink(&self, sc: &Self::Sc) -> Vec<Self::Sc>;
    /// Compact rendering of a scenario for the evidence file.
    fn sample(&self, sc: &Self::Sc) -> Value;
    fn level(&self) -> &'static str;
    fn rule(&self) -> String;
    fn state_measure(&self) -> String;
    fn assumptions(&self) -> Vec<String>;
    fn real_components(&self) -> Vec<&'static str>;
    fn stub_components(&self) -> Vec<&'static str>;
    /// Counters that must be non-zero for the run to count (reach probes).
    fn required_probes(&self, tier: Tier) -> Vec<&'static str>;
    fn exhaustive_note(&self) -> Option<String> {
        None
    }
    /// Narrow a failing scenario using what the violation says (before delta debugging).
    fn focus(&self, _sc: &Self::Sc, _v: &Violation) -> Option<Self::Sc> {
        None
    }
    /// Is a simulated process that hangs, or kills its OS process, a violation of this property?
    /// (C12-C14: a look-up that never returns is not the answer the reference gives. C09: no.)
    fn hang_or_death_is_violation(&self) -> bool {
        false
    }
    fn minimise_seconds(&self) -> u64 {
        20
    }
    /// What "evaluations" counts for this engine (default: scenarios).
    fn evaluations(&self, _st: &Stats, scenarios: u64) -> u64 {
        scenarios
    }
}

#[derive(Serialize, Deserialize)]
pub struct ReplayFile {
    pub property: String,
    pub engine: String,
    pub base_seed: u64,
    pub index: u64,
    pub scenario_seed: u64,
    pub minimised: bool,
    pub shrink_steps: u64,
    pub original_size: usize,
    pub minimised_size: usize,
    pub violation: Violation,
    pub scenario: Value,
}

/// Where evidence/ and replays/ go. /verif unless VERIF_OUT_DIR is set (exploratory
/// background sweeps must not overwrite the evidence of the registered checks).
pub fn out_dir() -> String {
    match std::env::var("VERIF_OUT_DIR") {
        Ok(s) if !s.trim().is_empty() => s,
        _ => "/verif".to_string(),
    }
}

pub fn scenario_size<T: Serialize>(sc: &T) -> usize {
    serde_json::to_string(sc).map(|s| s.len()).unwrap_or(0)
}

pub fn scenario_digest<T: Serialize>(sc: &T) -> u64 {
    fnv64(serde_json::to_string(sc).unwrap_or_default().as_bytes())
}

/// Greedy delta debugging over the engine's shrink candidates while a
/// violation of the same class (kind + signature) persists. Every candidate
/// is a full deterministic re-simulation.
pub fn minimise<E: Engine>(e: &E, sc: &E::Sc, target: &Violation, deadline: Instant) -> (E::Sc, Violation, u64) {
    let mut cur = sc.clone();
    let mut cur_v = target.clone();
    let mut steps = 0u64;
    let mut scratch = Stats::default();
    if let Some(f) = e.focus(sc, target) {
        let out = e.execute(&f, &mut scratch);
        if let Some(v) = out.violations.iter().find(|v| v.kind == target.kind && v.signature == target.signature) {
            cur = f;
            cur_v = v.clone();
            steps += 1;
        }
    }
    'outer: loop {
        if Instant::now() > deadline {
            break;
        }
        let cands = e.shrink(&cur);
        let cur_size = scenario_size(&cur);
        for cand in cands {
            if Instant::now() > deadline {
                break 'outer;
            }
            if scenario_size(&cand) >= cur_size {
                continue;
            }
            let out = e.execute(&cand, &mut scratch);
            if let Some(v) = out.violations.iter().find(|v| v.kind == target.kind && v.signature == target.signature) {
                cur = cand;
                cur_v = v.clone();
                steps += 1;
                continue 'outer;
            }
        }
        break;
    }
    (cur, cur_v, steps)
}

pub fn write_replay<E: Engine>(
    e: &E,
    base_seed: u64,
    index: u64,
    scenario_seed: u64,
    original: &E::Sc,
    minimised: &E::Sc,
    v: &Violation,
    steps: u64,
) -> String {
    let dir = format!("{}/replays", out_dir());
    let _ = std::fs::create_dir_all(&dir);
    let path = format!("{}/{}-{}-{}.json", dir, e.property(), base_seed, index);
    let rf = ReplayFile {
        property: e.property().to_string(),
        engine: e.engine_name().to_string(),
        base_seed,
        index,
        scenario_seed,
        minimised: true,
        shrink_steps: steps,
        original_size: scenario_size(original),
        minimised_size: scenario_size(minimised),
        violation: v.clone(),
        scenario: serde_json::to_value(minimised).unwrap(),
    };
    std::fs::write(&path, serde_json::to_string_pretty(&rf).unwrap()).expect("write replay file");
    path
}

#[derive(Serialize, Deserialize, Default)]
pub struct WorkerReport {
    pub worker: u64,
    pub evaluations: u64,
    pub first_index: u64,
    pub last_index: u64,
    pub stats: Stats,
    pub violations: Vec<(String, Violation)>, // (replay path, violation)
    pub audit_reexecuted: u64,
    pub audit_mismatches: u64,
    pub run_seconds: f64,
    pub stopped_by_deadline: bool,
}

pub fn run_worker<E: Engine>(e: &E, tier: Tier, base_seed: u64, worker: u64, nworkers: u64, count: u64, soft_secs: u64) -> WorkerReport {
    let start = Instant::now();
    let deadline = start + std::time::Duration::from_secs(soft_secs);
    let mut rep = WorkerReport { worker, first_index: u64::MAX, ..Default::default() };
    // audit-determinism: per-scenario event-log digests, one file per worker
    let mut digest_log = std::env::var("VERIF_DIGEST_LOG").ok().filter(|s| !s.is_empty()).and_then(|p| std::fs::File::create(format!("{}.{}", p, worker)).ok());
    let mut idx = worker;
    while idx < count {
        if Instant::now() > deadline {
            rep.stopped_by_deadline = true;
            break;
        }
        crate::note_progress(idx);
        let seed = crate::prng::mix(base_seed, idx, e.lane());
        let sc = e.generate(seed, idx, tier);
        crate::note_current(crate::Current {
            property: e.property().to_string(),
            engine: e.engine_name().to_string(),
            base_seed,
            index: idx,
            scenario_seed: seed,
            scenario: serde_json::to_value(&sc).unwrap_or(Value::Null),
            replay_mode: false,
        });
        let out = e.execute(&sc, &mut rep.stats);
        rep.evaluations += 1;
        if let Some(log) = digest_log.as_mut() {
            use std::io::Write;
            let _ = writeln!(log, "{} {:016x}", idx, out.digest);
        }
        rep.first_index = rep.first_index.min(idx);
        rep.last_index = idx;
        if out.nontrivial {
            rep.stats.nontrivial.insert(scenario_digest(&sc));
        }
        // Evidence samples: the first scenario of each worker, and one later non-trivial one.
        if rep.stats.samples.is_empty() || (rep.stats.samples.len() < 2 && out.nontrivial && (idx / nworkers) % 7 == 3) {
            rep.stats.samples.push(e.sample(&sc));
        }
        // Determinism self-audit on a 1-in-64 sample: re-execute, compare event-log digests.
        if idx % 64 == 5 {
            let mut scratch = Stats::default();
            let again = e.execute(&sc, &mut scratch);
            rep.audit_reexecuted += 1;
            if again.digest != out.digest {
                rep.audit_mismatches += 1;
                rep.stats.harness_error(format!("nondeterminism: index {} digests {:x} vs {:x}", idx, out.digest, again.digest));
            }
        }
        if !out.violations.is_empty() && rep.violations.len() < 3 {
            // Report each distinct (kind, signature) of this scenario once.
            let mut seen: BTreeSet<(String, String)> = BTreeSet::new();
            for v in &out.violations {
                if !seen.insert((v.kind.clone(), v.signature.clone())) {
                    continue;
                }
                if rep.violations.iter().any(|(_, pv)| pv.kind == v.kind && pv.signature == v.signature) {
                    continue;
                }
                let min_deadline = Instant::now() + std::time::Duration::from_secs(e.minimise_seconds());
                let (min_sc, min_v, steps) = minimise(e, &sc, v, min_deadline);
                let path = write_replay(e, base_seed, idx * 16 + seen.len() as u64, seed, &sc, &min_sc, &min_v, steps);
                rep.violations.push((path, min_v));
            }
        }
        idx += nworkers;
    }
    if rep.first_index == u64::MAX {
        rep.first_index = 0;
    }
    rep.run_seconds = start.elapsed().as_secs_f64();
    rep
}

pub fn evidence_json<E: Engine>(
    e: &E,
    tier: Tier,
    base_seed: u64,
    total: &WorkerReport,
    wall_s: f64,
    nworkers: u64,
    new_violations: usize,
    known: usize,
) -> Value {
    let st = &total.stats;
    let mut faults = BTreeMap::new();
    let mut probes = BTreeMap::new();
    let mut other = BTreeMap::new();
    for (k, v) in &st.counters {
        if let Some(n) = k.strip_prefix("fault.") {
            faults.insert(n.to_string(), *v);
        } else if let Some(n) = k.strip_prefix("probe.") {
            probes.insert(n.to_string(), *v);
        } else {
            other.insert(k.clone(), *v);
        }
    }
    let runs = total.evaluations;
    let evaluations = e.evaluations(st, runs);
    let per_hour = if total.run_seconds > 0.0 { (runs as f64 / wall_s * 3600.0) as u64 } else { 0 };
    json!({
        "property_id": e.property(),
        "tier": tier.name(),
        "seed": base_seed,
        "level": e.level(),
        "wall_s": wall_s,
        "violations": new_violations,
        "known_findings_seen": known,
        "coverage": {
            "evaluations": evaluations,
            "distinct_nontrivial": st.nontrivial.len(),
            "rule": e.rule(),
            "samples": st.samples,
            "exhaustive": false,
            "per_scenario_axis_enumerated_completely": e.exhaustive_note().is_some() && tier == Tier::Thorough,
            "enumeration_note": e.exhaustive_note(),
            "runs": runs,
            "runs_per_hour": per_hour,
            "seeds": { "base": base_seed, "first_index": total.first_index, "last_index": total.last_index, "derivation": "scenario seed = mix(base, index, lane); default base is fixed" },
            "workers": nworkers,
            "stopped_by_soft_deadline": total.stopped_by_deadline,
            "simulated_processes": st.get("sim.processes"),
            "simulated_days": st.get("sim.days"),
            "faults_injected": faults,
            "probes": probes,
            "counters": other,
            "distinct_states": st.states.len(),
            "distinct_states_measure": e.state_measure(),
            "determinism_audit": { "reexecuted": total.audit_reexecuted, "mismatches": total.audit_mismatches },
            "real_components": e.real_components(),
            "stub_components": e.stub_components(),
        },
        "assumptions": e.assumptions(),
    })
}
