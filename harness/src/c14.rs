//! fxsim / config `crash` — C14: an interrupted cache write cannot corrupt
//! exchange rates.
//!
//! One fault-free execution of the real write path (RateLoader download ->
//! CsvRatesCache::write_rates -> std::fs over SimFs) is journalled; every
//! prefix of the journal — after each operation, and at every byte offset of
//! every write (all of them in thorough mode) — is materialised as the disk a
//! crash would leave; a recovery history of two fresh simulated processes
//! (same day, later day) then looks rates up over that disk. Oracle: every
//! recovery look-up equals the look-up by the real code with no cache.

use crate::common::*;
use crate::fx::*;
use crate::interpose::with_world;
use crate::prng::{fnv64, fnv64_add, Rng};
use crate::simfs::{Disk, Knobs, Op};
use serde::{Deserialize, Serialize};
use serde_json::{json, Value};
use std::collections::BTreeSet;
use std::sync::Arc;
use time::{Date, Duration};

#[derive(Clone, Debug, Serialize, Deserialize, PartialEq)]
pub struct Step {
    pub today: String,
    pub published_today: bool,
    pub lookup: String,
    pub force: bool,
    /// further look-ups by the same run (other years: several year files written by one run)
    #[serde(default)]
    pub more: Vec<String>,
}

#[derive(Clone, Debug, Serialize, Deserialize, PartialEq)]
pub struct Sc {
    pub cal: Calendar,
    pub format: JsonFormat,
    /// An earlier run completed normally and left an older complete file.
    pub prior: Option<Step>,
    /// The run that is killed while writing the cache.
    pub victim: Step,
    pub max_write: usize,
    pub later_day_offset: i64,
    pub later_published_today: bool,
    pub extra_dates: Vec<String>,
    pub reverse_recovery_order: bool,
    /// None: every byte offset of every write. Some(n): op boundaries plus n sampled offsets.
    pub sample_cuts: Option<usize>,
    pub cut_seed: u64,
    /// Every n-th distinct crash state also explores second crashes (0 = never) ...
    #[serde(default)]
    pub second_crash_every: usize,
    /// ... at this many sampled points of the recovery run's own journal.
    #[serde(default)]
    pub second_crash_samples: usize,
    /// An even earlier run was killed while writing and left its debris (e.g. a stale temporary file).
    #[serde(default)]
    pub pre_crash: Option<(Step, u64)>,
    /// The earlier killed run's clock was this many days ahead of the real day (a clock jump that
    /// was corrected afterwards): its year content runs further than anything a correct run writes.
    /// It is killed before its first rename, so only its temporary file holds that content.
    #[serde(default)]
    pub pre_crash_clock_ahead: i64,
    /// The cache directory also holds files that are none of the tool's business: backups and
    /// copies with plausible names and WRONG rates, a note, an editor's swap file.
    #[serde(default)]
    pub junk_files: bool,
    /// The cache directory's path is not valid UTF-8 (a Latin-1 home directory name).
    #[serde(default)]
    pub odd_cache_dir: bool,
    /// Symbolic links in the cache (a dot-file manager, a synchronised folder): 1 = every existing
    /// year file is a link to a file in ~/sync; 2 = the cache directory itself is a link to
    /// ~/sync/acb; 3 = as 1, and the year files the victim may write for the first time are dangling
    /// links; 4 = every existing year file has a second hard link in ~/backup (a snapshot tool). 0 = none.
    #[serde(default)]
    pub linked_cache: u8,
    /// Set by minimisation: explore this single crash point only.
    pub only_state: Option<CrashPoint>,
    pub hash_seed: u64,
}

#[derive(Clone, Debug, Serialize, Deserialize, PartialEq)]
pub enum CrashPoint {
    /// Kill: the first k journal operations happened, plus `cut` bytes of operation k if it is a write.
    Prefix { k: usize, cut: usize },
    /// Power loss: every namespace operation of the first k is durable, but of the data written
    /// to `ino` since its last fsync only `keep` bytes reached the disk.
    PowerLoss { k: usize, ino: u64, keep: usize },
    /// Not a kill: the disk fills up (ENOSPC; a file-size limit or quota behaves alike) after the
    /// run has written `after` bytes; the run goes on, handles the error and exits normally.
    /// The state is whatever that run leaves behind (re-executed live, not materialised).
    WriteError { after: u64 },
    /// Not a kill either: one step of the write procedure fails with EIO ("fsync", "rename") or
    /// EACCES ("open_write"); the run goes on, handles the error and exits normally.
    OpError { kind: String },
}

impl CrashPoint {
    fn materialise(&self, d0: &Disk, journal: &[Op]) -> Disk {
        match self {
            CrashPoint::Prefix { k, cut } => Disk::crash_state(d0, journal, *k, *cut),
            CrashPoint::PowerLoss { k, ino, keep } => Disk::power_loss_state(d0, journal, *k, *ino, *keep),
            CrashPoint::WriteError { .. } | CrashPoint::OpError { .. } => unreachable!("error states are produced by re-executing the run"),
        }
    }
}

pub fn generate(seed: u64, tier: Tier) -> Sc {
    let mut r = Rng::new(seed);
    let cal = gen_calendar(&mut r);
    let format = gen_format(&mut r);
    let boc = BocData::new(&cal, &format, &[]);
    let first = ymd(cal.start_year, 1, 1);
    let last = boc.last_day();
    // victim day: early January (tiny file), December (one or two 8 KiB writes), or anywhere
    let vy = cal.start_year + r.range(0, cal.n_years as i64 - 1) as i32;
    let vtoday = match r.weighted(&[3, 3, 3]) {
        0 => ymd(vy, 1, 1) + Duration::days(r.range(2, 20)),
        1 => ymd(vy, 12, 31) - Duration::days(r.range(0, 25)),
        _ => ymd(vy, 1, 1) + Duration::days(r.range(20, 340)),
    }
    .max(first + Duration::days(3))
    .min(last);
    let vpt = r.chance(1, 2);
    // the look-up that makes the victim download; Jan 1-7 look-backs write two year files
    let vlookup = match r.weighted(&[5, 3, 2]) {
        0 => vtoday - Duration::days(r.range(0, 9)),
        1 => {
            if vtoday.year() > cal.start_year {
                ymd(vtoday.year(), 1, 1) + Duration::days(r.range(0, 6)).min(vtoday - ymd(vtoday.year(), 1, 1))
            } else {
                vtoday - Duration::days(r.range(0, 5))
            }
        }
        _ => vtoday - Duration::days(r.range(0, 300)),
    }
    .max(first);
    let prior = if r.chance(1, 2) {
        let ago = *r.pick(&[1i64, 2, 3, 7, 10, 30, 100, 400]);
        let pt = (vtoday - Duration::days(ago)).max(first + Duration::days(2));
        if pt < vtoday {
            Some(Step { today: pt.to_string(), published_today: r.chance(1, 2), lookup: (pt - Duration::days(r.range(0, 6))).max(first).to_string(), force: false, more: vec![] })
        } else {
            None
        }
    } else {
        None
    };
    // If the prior run already covers the victim's look-up the victim would not download: force it sometimes, else ask beyond.
    let vforce = r.chance(1, 5);
    // A third of the victims look further dates up, in other years: one run then writes several
    // year files, one after the other, and can die with some complete and one torn.
    let mut vmore = vec![];
    if r.chance(1, 3) {
        for _ in 0..r.range(1, 2) {
            let y = cal.start_year + r.range(0, cal.n_years as i64 - 1) as i32;
            let d = if r.chance(1, 2) { ymd(y, 1, 1) + Duration::days(r.range(0, 6)) } else { ymd(y, 12, 31) - Duration::days(r.range(0, 200)) };
            vmore.push(d.min(vtoday).max(first).to_string());
        }
    }
    let mut extra = vec![];
    for _ in 0..2 {
        extra.push(interesting_date(&mut r, &boc, vtoday).to_string());
    }
    Sc {
        cal,
        format,
        prior,
        victim: Step { today: vtoday.to_string(), published_today: vpt, lookup: vlookup.to_string(), force: vforce, more: vmore },
        max_write: *r.pick(&[usize::MAX, usize::MAX, usize::MAX, 4096, 1000, 512]),
        later_day_offset: *r.pick(&[1i64, 1, 2, 3, 7, 12, 40]),
        later_published_today: r.chance(1, 2),
        extra_dates: extra,
        reverse_recovery_order: r.chance(1, 2),
        sample_cuts: if tier == Tier::Quick { Some(192) } else { None },
        cut_seed: r.next_u64(),
        second_crash_every: if tier == Tier::Quick { 24 } else { 6 },
        second_crash_samples: if tier == Tier::Quick { 3 } else { 8 },
        pre_crash: if r.chance(1, 3) {
            let ago = *r.pick(&[1i64, 2, 5, 20, 200]);
            let pt = (vtoday - Duration::days(ago)).max(first + Duration::days(2));
            Some((Step { today: pt.to_string(), published_today: r.chance(1, 2), lookup: (pt - Duration::days(r.range(0, 6))).max(first).to_string(), force: r.chance(1, 2), more: vec![] }, r.next_u64()))
        } else {
            None
        },
        only_state: None,
        junk_files: r.chance(1, 4),
        odd_cache_dir: r.chance(1, 8),
        linked_cache: {
            // (its own stream: the rest of the scenario is what it was before this knob existed)
            let mut rl = Rng::new(crate::prng::mix(seed, 0x11CC, 14));
            if rl.chance(1, 6) {
                rl.range(1, 4) as u8
            } else {
                0
            }
        },
        hash_seed: r.next_u64(),
        pre_crash_clock_ahead: if r.chance(1, 2) { *r.pick(&[3i64, 10, 25, 60]) } else { 0 },
    }
}

fn run_step(boc: &Arc<BocData>, st: &Step, max_write: usize, hash_seed: u64) -> FxObs {
    run_step_clock_ahead(boc, st, max_write, hash_seed, 0)
}

fn run_step_clock_ahead(boc: &Arc<BocData>, st: &Step, max_write: usize, hash_seed: u64, ahead: i64) -> FxObs {
    run_step_with(boc, st, max_write, hash_seed, ahead, FsFaultSpec::default())
}

fn run_step_with(boc: &Arc<BocData>, st: &Step, max_write: usize, hash_seed: u64, ahead: i64, fs_faults: FsFaultSpec) -> FxObs {
    run_fx_process(FxPlan {
        data: boc.clone(),
        today: pd(&st.today) + Duration::days(ahead),
        published_today: st.published_today,
        force: st.force,
        cache: CacheKind::Csv,
        mem_in: MemState::new(),
        lookups: std::iter::once(&st.lookup).chain(st.more.iter()).map(|d| pd(d)).collect(),
        app_rows: None,
        app_files: 1,
        app_console: false,
        app_legacy_date: false,
        app_date_fmt: 0,
        net_faults: vec![],
        server_today: if ahead != 0 { Some(pd(&st.today)) } else { None },
        clock_tz: None,
        now_shift: 0,
        session: None,
        fs_faults,
        knobs: Knobs { max_write, max_read: usize::MAX, eintr_every: 0 },
        hash_seed,
    })
}

/// Dates in the last rows of every surviving cache-like file, read leniently by the harness.
pub fn tail_dates(disk: &Disk) -> Vec<Date> {
    // Whatever the format of the cache files: every yyyy-mm-dd found in the last three and the first
    // two lines of every file in the cache directory.
    fn dates_in(line: &str, out: &mut Vec<Date>) {
        let b = line.as_bytes();
        let mut i = 0;
        while i + 10 <= b.len() {
            let w = &b[i..i + 10];
            let shape = w.iter().enumerate().all(|(k, c)| if k == 4 || k == 7 { *c == b'-' } else { c.is_ascii_digit() });
            if shape {
                if let Ok(d) = acb::util::date::parse_standard_date(&line[i..i + 10]) {
                    out.push(d);
                    i += 10;
                    continue;
                }
            }
            i += 1;
        }
    }
    let mut out = vec![];
    for (_name, data) in disk.all_files().into_iter().filter(|(p, _)| p.starts_with("/simfs/home/")) {
        let text = String::from_utf8_lossy(&data);
        let lines: Vec<&str> = text.lines().filter(|l| !l.trim().is_empty()).collect();
        for l in lines.iter().rev().take(3) {
            dates_in(l, &mut out);
        }
        for l in lines.iter().take(2) {
            dates_in(l, &mut out);
        }
    }
    out.sort();
    out.dedup();
    // keep it bounded: the newest few and the oldest
    if out.len() > 8 {
        let oldest = out[0];
        out = out.split_off(out.len() - 7);
        out.insert(0, oldest);
    }
    out
}

fn file_class(p: &str) -> &'static str {
    let base = p.rsplit('/').next().unwrap_or("");
    if base.starts_with("rates-") && base.ends_with(".csv") && base.len() == "rates-2022.csv".len() {
        "the live cache file"
    } else {
        "a temporary file"
    }
}

fn name_of(disk: &Disk, ino: u64) -> String {
    // Prefer the live name when an inode has several links.
    let mut names: Vec<&String> = disk.names.iter().filter(|(_, i)| **i == ino).map(|(p, _)| p).collect();
    names.sort_by_key(|p| if file_class(p) == "the live cache file" { 0 } else { 1 });
    names.first().map(|p| p.to_string()).unwrap_or_else(|| format!("<unlinked ino {}>", ino))
}

fn cut_position(text: &str) -> &'static str {
    let last_line = text.rsplit('\n').next().unwrap_or("");
    if last_line.is_empty() {
        "at a row boundary"
    } else if !last_line.contains(',') {
        "inside a date field"
    } else if last_line.ends_with(',') {
        "between date and rate"
    } else {
        "inside a rate field"
    }
}

/// (signature, description) of a crash point. The description starts with the
/// crash point as JSON so that minimisation can focus on it.
fn describe_cut(d0: &Disk, journal: &[Op], cp: &CrashPoint) -> (String, String) {
    let head = format!("crash point {}:", serde_json::to_string(cp).unwrap());
    match cp {
        CrashPoint::Prefix { k, cut } => {
            let (k, cut) = (*k, *cut);
            let before = Disk::crash_state(d0, journal, k, 0);
            if cut > 0 {
                if let Some(Op::Write { ino, off, data }) = journal.get(k) {
                    let p = name_of(&before, *ino);
                    let after = Disk::crash_state(d0, journal, k, cut);
                    let content = after.inodes.get(ino).map(|i| i.data.clone()).unwrap_or_default();
                    let upto = (*off as usize + cut).min(content.len());
                    let text = String::from_utf8_lossy(&content[..upto]).to_string();
                    let last_line = text.rsplit('\n').next().unwrap_or("").to_string();
                    return (
                        format!("crash during a write to {}, cut {}", file_class(&p), cut_position(&text)),
                        format!("{} write #{} to {} interrupted after {} of {} bytes (file offset {}), last surviving line {:?}", head, k, p, cut, data.len(), off, last_line),
                    );
                }
            }
            let after_what = if k == 0 { "before the first operation".to_string() } else { format!("after {}", journal[k - 1].describe()) };
            let kind = if k == 0 { "start".to_string() } else { journal[k - 1].kind().to_string() };
            let target = if k == 0 {
                "".to_string()
            } else {
                match &journal[k - 1] {
                    Op::Truncate { ino, .. } | Op::Write { ino, .. } | Op::Fsync { ino } | Op::Close { ino } | Op::Chmod { ino, .. } => format!(" on {}", file_class(&name_of(&before, *ino))),
                    Op::Create { path, .. } => format!(" of {}", file_class(path)),
                    Op::Rename { to, .. } => format!(" onto {}", file_class(to)),
                    _ => String::new(),
                }
            };
            (format!("crash at a step boundary: after {}{}", kind, target), format!("{} {}", head, after_what))
        }
        CrashPoint::OpError { kind } if kind.starts_with("fsync_keeps:") => ("fsync fails because the write-back failed: only a prefix of the un-synced data is on the medium".to_string(), format!("{} every fsync of the run fails with ENOSPC and of the data written to the file since its last successful fsync only {} bytes are on the medium; the run handles the error and exits", head, &kind["fsync_keeps:".len()..])),
        CrashPoint::OpError { kind } => (format!("{} fails in the write procedure", kind), format!("{} every {} of the run fails ({}); the run handles the error and exits", head, kind, if kind == "open_write" { "EACCES" } else { "EIO" })),
        CrashPoint::WriteError { after } => {
            // which write, and where inside the row, does byte `after` fall?
            let mut seen = 0u64;
            let mut pos = "at the very end".to_string();
            let mut target = "the cache directory".to_string();
            for (k, op) in journal.iter().enumerate() {
                if let Op::Write { ino, off, data } = op {
                    if seen + data.len() as u64 > *after {
                        let cut = (*after - seen) as usize;
                        let before = Disk::crash_state(d0, journal, k, 0);
                        let p = name_of(&before, *ino);
                        let after_d = Disk::crash_state(d0, journal, k, cut);
                        let content = after_d.inodes.get(ino).map(|i| i.data.clone()).unwrap_or_default();
                        let upto = (*off as usize + cut).min(content.len());
                        let text = String::from_utf8_lossy(&content[..upto]).to_string();
                        pos = format!("cut {}", cut_position(&text));
                        target = file_class(&p).to_string();
                        break;
                    }
                    seen += data.len() as u64;
                }
            }
            (format!("write error (disk full) while writing {}, {}", target, pos), format!("{} the disk is full after {} bytes written by the run (ENOSPC: a short write, then errors); the run handles the error and exits", head, after))
        }
        CrashPoint::PowerLoss { k, ino, keep } => {
            let disk = Disk::power_loss_state(d0, journal, *k, *ino, *keep);
            let p = name_of(&disk, *ino);
            let content = disk.inodes.get(ino).map(|i| i.data.clone()).unwrap_or_default();
            let text = String::from_utf8_lossy(&content).to_string();
            let unsynced = Disk::unsynced_bytes(journal, *k, *ino);
            let pos = if *keep == 0 { "lost entirely".to_string() } else { format!("cut {}", cut_position(&text)) };
            let after = if *k == 0 { "start".to_string() } else { journal[*k - 1].kind().to_string() };
            (
                format!("power loss after {}: un-synced data of {} {}", after, file_class(&p), pos),
                format!("{} power loss after {}: every name change so far is durable, but of the {} bytes written to {} since its last fsync only {} reached the disk; last surviving line {:?}", head, if *k == 0 { "nothing".to_string() } else { journal[*k - 1].describe() }, unsynced, p, keep, text.rsplit('\n').next().unwrap_or("")),
            )
        }
    }
}

pub struct C14;

impl C14 {
    fn sample_offsets(r: &mut Rng, data: &[u8], per: usize) -> Vec<usize> {
        let n = data.len();
        let mut chosen: BTreeSet<usize> = BTreeSet::new();
        if n <= 1 {
            return vec![];
        }
        if n - 1 <= per {
            chosen.extend(1..n);
        } else {
            // bias: last three rows, first row, then uniform
            let text = String::from_utf8_lossy(data);
            let mut nl: Vec<usize> = text.match_indices('\n').map(|(i, _)| i).collect();
            nl.reverse();
            let tail_start = nl.get(3).copied().unwrap_or(0).max(1);
            for c in tail_start..n {
                if chosen.len() < per / 2 {
                    chosen.insert(c);
                }
            }
            let first_end = text.find('\n').unwrap_or(0).min(n - 1);
            for c in 1..=first_end {
                if chosen.len() < per * 2 / 3 {
                    chosen.insert(c);
                }
            }
            let mut guard = 0;
            while chosen.len() < per && guard < per * 20 {
                chosen.insert(r.range(1, n as i64 - 1) as usize);
                guard += 1;
            }
        }
        chosen.into_iter().collect()
    }

    fn crash_points(sc: &Sc, journal: &[Op]) -> Vec<CrashPoint> {
        if let Some(p) = &sc.only_state {
            // A shrink candidate may have changed the journal: a crash point outside it explores nothing.
            let k = match p {
                CrashPoint::Prefix { k, .. } | CrashPoint::PowerLoss { k, .. } => *k,
                CrashPoint::WriteError { .. } | CrashPoint::OpError { .. } => 0,
            };
            return if k <= journal.len() { vec![p.clone()] } else { vec![] };
        }
        let mut pts: Vec<CrashPoint> = vec![];
        for k in 0..=journal.len() {
            pts.push(CrashPoint::Prefix { k, cut: 0 });
        }
        let mut r = Rng::new(sc.cut_seed);
        let writes = journal.iter().filter(|o| matches!(o, Op::Write { .. })).count().max(1);
        for (k, op) in journal.iter().enumerate() {
            if let Op::Write { data, .. } = op {
                let n = data.len();
                if n <= 1 {
                    continue;
                }
                match sc.sample_cuts {
                    None => {
                        for c in 1..n {
                            pts.push(CrashPoint::Prefix { k, cut: c });
                        }
                    }
                    Some(budget) => {
                        for c in C14::sample_offsets(&mut r, data, (budget / writes).max(8)) {
                            pts.push(CrashPoint::Prefix { k, cut: c });
                        }
                    }
                }
            }
        }
        // Power loss: a name change (rename/link) or the end of the procedure is durable while
        // data written since the file's last fsync is not.
        for k in 1..=journal.len() {
            let exposing = matches!(journal[k - 1], Op::Rename { .. } | Op::Link { .. }) || k == journal.len();
            if !exposing {
                continue;
            }
            let inos: BTreeSet<u64> = journal[..k].iter().filter_map(|o| if let Op::Write { ino, .. } = o { Some(*ino) } else { None }).collect();
            for ino in inos {
                let n = Disk::unsynced_bytes(journal, k, ino);
                if n == 0 {
                    continue;
                }
                pts.push(CrashPoint::PowerLoss { k, ino, keep: 0 });
                // the un-synced bytes of this inode, concatenated, to choose cut offsets
                let last_sync = journal[..k].iter().rposition(|o| matches!(o, Op::Fsync { ino: i } if *i == ino)).map(|i| i + 1).unwrap_or(0);
                let mut bytes: Vec<u8> = vec![];
                for o in &journal[last_sync..k] {
                    if let Op::Write { ino: wi, data, .. } = o {
                        if *wi == ino {
                            bytes.extend_from_slice(data);
                        }
                    }
                }
                match sc.sample_cuts {
                    None => {
                        for c in 1..n {
                            pts.push(CrashPoint::PowerLoss { k, ino, keep: c });
                        }
                    }
                    Some(_) => {
                        for c in C14::sample_offsets(&mut r, &bytes, 48) {
                            pts.push(CrashPoint::PowerLoss { k, ino, keep: c });
                        }
                    }
                }
            }
        }
        // Write errors: the disk fills up after N bytes (thorough: 96 offsets, quick: 14), biased to
        // the last rows, to just past every 8 KiB buffer boundary (the error then hits the final
        // flush of a buffered writer) and to the first row.
        let total: u64 = journal.iter().map(|o| if let Op::Write { data, .. } = o { data.len() as u64 } else { 0 }).sum();
        if total > 1 {
            let n = if sc.sample_cuts.is_some() { 14 } else { 96 };
            let mut offs: BTreeSet<u64> = BTreeSet::new();
            let mut guard = 0;
            while offs.len() < n && guard < n * 20 {
                guard += 1;
                let o = match r.weighted(&[4, 4, 1, 3]) {
                    0 => total.saturating_sub(r.range(1, 70) as u64),
                    1 => {
                        let m = (total / 8192).max(1);
                        8192 * r.range(1, m as i64) as u64 + r.range(0, 80) as u64
                    }
                    2 => r.range(0, 30) as u64,
                    _ => r.range(0, total as i64 - 1) as u64,
                };
                if o < total {
                    offs.insert(o);
                }
            }
            for o in offs {
                pts.push(CrashPoint::WriteError { after: o });
            }
            for kind in ["fsync", "rename", "open_write"] {
                pts.push(CrashPoint::OpError { kind: kind.to_string() });
            }
            // fsync fails because the write-back failed (ENOSPC/EIO at write-back, as on NFS or a
            // thin-provisioned disk): only a prefix of the un-synced data is on the medium
            for _ in 0..(if sc.sample_cuts.is_some() { 3 } else { 24 }) {
                let keep = if r.chance(1, 2) { total.saturating_sub(r.range(1, 70) as u64) } else { r.range(0, total as i64 - 1) as u64 };
                pts.push(CrashPoint::OpError { kind: format!("fsync_keeps:{}", keep) });
            }
        }
        pts
    }
}

impl Engine for C14 {
    type Sc = Sc;
    fn property(&self) -> &'static str {
        "C14"
    }
    fn engine_name(&self) -> &'static str {
        "fxsim/crash"
    }
    fn lane(&self) -> u64 {
        14
    }
    fn budget(&self, tier: Tier) -> (u64, u64) {
        match tier {
            Tier::Quick => (640, 70),
            Tier::Thorough => (1_200, 1500),
        }
    }
    fn generate(&self, seed: u64, _index: u64, tier: Tier) -> Sc {
        generate(seed, tier)
    }

    fn execute(&self, sc: &Sc, st: &mut Stats) -> ExecOut {
        struct OddDirGuard;
        impl Drop for OddDirGuard {
            fn drop(&mut self) {
                set_odd_cache_dir(false);
            }
        }
        set_odd_cache_dir(sc.odd_cache_dir);
        let _odd_dir_guard = OddDirGuard;
        if sc.odd_cache_dir {
            st.bump("probe.cache_directory_path_is_not_valid_utf8");
        }
        let boc = Arc::new(BocData::new(&sc.cal, &sc.format, &[]));
        let mut reference = Reference::new(boc.clone());
        let mut violations: Vec<Violation> = vec![];
        let mut digest = fnv64(b"c14");
        with_world(|w| w.fs.disk = Disk::new());
        if let Some(p) = &sc.prior {
            let o = run_step(&boc, p, usize::MAX, sc.hash_seed ^ 1);
            st.bump("sim.processes");
            if o.panic.is_some() {
                st.harness_error(format!("prior run panicked: {:?}", o.panic));
            }
            st.bump("probe.older_complete_file_present");
        }
        if let Some((step, pseed)) = &sc.pre_crash {
            // run it to completion on a scratch copy, then keep only a prefix of what it did
            let before = with_world(|w| w.fs.disk.clone());
            let ahead = sc.pre_crash_clock_ahead.max(0);
            let o = run_step_clock_ahead(&boc, step, usize::MAX, sc.hash_seed ^ 3, ahead);
            st.bump("sim.processes");
            let jp = o.proc.journal;
            let mut rp = Rng::new(*pseed);
            let wr: Vec<usize> = jp.iter().enumerate().filter_map(|(i, o)| if matches!(o, Op::Write { .. }) { Some(i) } else { None }).collect();
            let first_rename = jp.iter().position(|o| matches!(o, Op::Rename { .. } | Op::Link { .. }));
            let cp = if ahead > 0 {
                // Only the temporary file may ever hold what the wrong clock produced: the run dies
                // before its first name change (mostly right before it, the temporary file complete).
                st.bump("fault.clock_set_ahead_in_an_earlier_killed_run");
                match first_rename {
                    Some(fr) if rp.chance(2, 3) => CrashPoint::Prefix { k: fr, cut: 0 },
                    Some(fr) => CrashPoint::Prefix { k: rp.range(0, fr as i64) as usize, cut: 0 },
                    // A write procedure without a name change has no point before which its output
                    // is private: nothing of the wrong-clock run is kept.
                    None => CrashPoint::Prefix { k: 0, cut: 0 },
                }
            } else if wr.is_empty() || rp.chance(1, 4) {
                CrashPoint::Prefix { k: rp.range(0, jp.len() as i64) as usize, cut: 0 }
            } else {
                let k = *rp.pick(&wr);
                let n = if let Op::Write { data, .. } = &jp[k] { data.len() } else { 1 };
                CrashPoint::Prefix { k, cut: rp.range(1, (n as i64 - 1).max(1)) as usize }
            };
            let debris = cp.materialise(&before, &jp);
            if debris.list_files(cache_dir_key()).iter().any(|(n, _)| n.ends_with(".tmp")) {
                st.bump("probe.stale_temporary_file_from_an_earlier_crash");
            }
            with_world(|w| w.fs.disk = debris);
            st.bump("probe.earlier_run_was_killed_too");
        }
        if sc.junk_files {
            let y = pd(&sc.victim.lookup).year();
            let mut wrong = String::new();
            let mut day = ymd(y, 1, 1);
            while day.year() == y {
                wrong.push_str(&format!("{},9.87654\n", day));
                day += Duration::days(1);
            }
            with_world(|w| {
                for name in [format!("rates-{}.csv.bak", y), format!("rates-{}.csv.old", y), format!("rates-{} (copy).csv", y), format!("Rates-{}.CSV", y), format!(".rates-{}.csv.swp", y)] {
                    w.fs.disk.put_file(&format!("{}/{}", cache_dir_key(), name), wrong.as_bytes());
                }
                w.fs.disk.put_file(&format!("{}/notes.txt", cache_dir_key()), b"remember to check 2021\n");
                // now and then something un-openable sits where a temporary file would go
                if sc.cut_seed % 3 == 0 {
                    w.fs.disk.put_dir(&format!("{}/rates-{}.csv.tmp", cache_dir_key(), y));
                }
            });
            st.bump("probe.cache_directory_also_holds_foreign_files_with_wrong_rates");
        }
        // Whatever earlier runs left is presented the way an OLDER version of the tool would have left
        // it: in ~/.acb. (A no-op unless the code under test keeps its cache somewhere else - then the
        // victim meets a legacy directory, and whatever it does with it is part of its write.)
        with_world(|w| {
            let legacy = cache_dir_key();
            let moved: Vec<(String, Vec<u8>)> = w.fs.disk.all_files().into_iter().filter(|(p, _)| p.starts_with("/simfs/home/") && !p.starts_with(&format!("{}/", legacy)) && p.rsplit('/').next().map(|b| b.starts_with("rates-")).unwrap_or(false)).collect();
            for (p, data) in moved {
                let base = p.rsplit('/').next().unwrap_or("x").to_string();
                w.fs.disk.remove_file_quietly(&p);
                w.fs.disk.put_file(&format!("{}/{}", legacy, base), &data);
            }
        });
        if sc.linked_cache > 0 {
            with_world(|w| {
                let dir = cache_dir_key();
                let d = &mut w.fs.disk;
                if sc.linked_cache == 4 {
                    d.put_dir("/simfs/home/backup");
                    let names: Vec<(String, u64)> = d.children(dir).into_iter().filter(|(n, is_dir, _)| !*is_dir && n.starts_with("rates-") && n.ends_with(".csv")).map(|(n, _, i)| (n, i)).collect();
                    for (n, ino) in names {
                        d.names.insert(format!("/simfs/home/backup/{}.snapshot", n), ino);
                        if let Some(i) = d.inodes.get_mut(&ino) {
                            i.nlink += 1;
                        }
                    }
                } else if sc.linked_cache == 2 {
                    // the whole directory lives elsewhere
                    let prefix = format!("{}/", dir);
                    let moved: Vec<(String, u64)> = d.names.iter().filter(|(p, _)| p.starts_with(&prefix)).map(|(p, i)| (p.clone(), *i)).collect();
                    d.put_dir("/simfs/home/sync/acb");
                    for (p, ino) in moved {
                        d.names.remove(&p);
                        d.names.insert(format!("/simfs/home/sync/acb/{}", &p[prefix.len()..]), ino);
                    }
                    if let Some(ino) = d.names.remove(dir) {
                        d.inodes.remove(&ino);
                    }
                    d.put_symlink(&dir, "/simfs/home/sync/acb");
                } else {
                    d.put_dir("/simfs/home/sync");
                    let is_year_file = |n: &str| n.starts_with("rates-") && n.ends_with(".csv") && n.len() == "rates-2020.csv".len();
                    for (name, data) in d.list_files(&dir) {
                        if is_year_file(&name) {
                            d.remove_file_quietly(&format!("{}/{}", dir, name));
                            d.put_file(&format!("/simfs/home/sync/{}", name), &data);
                            // relative and absolute targets both occur
                            let target = if sc.cut_seed % 2 == 0 { format!("../sync/{}", name) } else { format!("/simfs/home/sync/{}", name) };
                            d.put_symlink(&format!("{}/{}", dir, name), &target);
                        }
                    }
                    if sc.linked_cache == 3 {
                        let mut years: BTreeSet<i32> = BTreeSet::new();
                        years.insert(pd(&sc.victim.lookup).year());
                        for m in &sc.victim.more {
                            years.insert(pd(m).year());
                        }
                        for y in years {
                            let name = format!("rates-{}.csv", y);
                            if d.lookup(&format!("{}/{}", dir, name)).is_none() {
                                d.put_dir(&dir);
                                d.put_symlink(&format!("{}/{}", dir, name), &format!("/simfs/home/sync/{}", name));
                            }
                        }
                    }
                }
            });
            st.bump(match sc.linked_cache {
                4 => "probe.cache_year_files_have_a_second_hard_link",
                2 => "probe.cache_directory_is_a_symbolic_link",
                3 => "probe.cache_year_files_are_symbolic_links_some_dangling",
                _ => "probe.cache_year_files_are_symbolic_links",
            });
        }
        let mut d0 = with_world(|w| w.fs.disk.clone());
        // (crash states are materialised from d0 + journal: what the victim creates or writes is stamped with the victim's instant)
        d0.clock = crate::proc::ProcEnv::new(sc.hash_seed, pd(&sc.victim.today)).now_unix();
        let victim = run_step(&boc, &sc.victim, sc.max_write, sc.hash_seed);
        st.bump("sim.processes");
        if !victim.proc.unmodelled.is_empty() {
            st.harness_error(format!("unmodelled call: {:?}", victim.proc.unmodelled));
        }
        let stderr_txt = String::from_utf8_lossy(&victim.stderr);
        if stderr_txt.contains("os error") {
            st.bump("note.os_error_text_on_stderr_of_a_fault_free_run");
        }
        let journal = victim.proc.journal.clone();
        let writes: Vec<usize> = journal.iter().filter_map(|o| if let Op::Write { data, .. } = o { Some(data.len()) } else { None }).collect();
        if writes.is_empty() {
            st.bump("probe.victim_did_not_write");
            return ExecOut { violations, digest, nontrivial: false };
        }
        st.bump("probe.victim_wrote_cache");
        let files_written: BTreeSet<u64> = journal.iter().filter_map(|o| if let Op::Write { ino, .. } = o { Some(*ino) } else { None }).collect();
        if files_written.len() >= 2 {
            st.bump("probe.two_year_files_written");
        }
        if files_written.len() >= 3 {
            st.bump("probe.three_or_more_year_files_written");
        }
        if writes.len() >= 2 && files_written.len() < writes.len() {
            st.bump("probe.file_written_in_several_write_calls");
        }
        if journal.iter().any(|o| matches!(o, Op::Rename { .. })) {
            st.bump("probe.write_procedure_uses_rename");
        }
        if journal.iter().any(|o| matches!(o, Op::Fsync { .. })) {
            st.bump("probe.write_procedure_uses_fsync");
        }
        let total_bytes: usize = writes.iter().sum();
        st.bump(match total_bytes {
            0..=400 => "probe.file_size_tiny",
            401..=8192 => "probe.file_size_one_buffer",
            _ => "probe.file_size_over_8k",
        });

        let vtoday = pd(&sc.victim.today);
        let later = (vtoday + Duration::days(sc.later_day_offset)).min(boc.last_day() + Duration::days(1));
        let points = C14::crash_points(sc, &journal);
        let mut seen_disks: BTreeSet<u64> = BTreeSet::new();
        let mut distinct_states = 0usize;
        for cp in points {
            let disk = match &cp {
                CrashPoint::WriteError { .. } | CrashPoint::OpError { .. } => {
                    // live re-execution of the victim over the same starting disk, with the fault armed
                    with_world(|w| w.fs.disk = d0.clone());
                    let spec = match &cp {
                        CrashPoint::WriteError { after } => FsFaultSpec { enospc_after_bytes: Some(*after), ..FsFaultSpec::default() },
                        CrashPoint::OpError { kind } if kind == "fsync" => FsFaultSpec { fsync_errno: Some(libc::EIO), ..FsFaultSpec::default() },
                        CrashPoint::OpError { kind } if kind.starts_with("fsync_keeps:") => FsFaultSpec { fsync_errno: Some(libc::ENOSPC), fsync_error_keeps: kind["fsync_keeps:".len()..].parse().ok(), ..FsFaultSpec::default() },
                        CrashPoint::OpError { kind } if kind == "rename" => FsFaultSpec { rename_errno: Some(libc::EIO), ..FsFaultSpec::default() },
                        _ => FsFaultSpec { open_write_errno: Some(libc::EACCES), ..FsFaultSpec::default() },
                    };
                    let o = run_step_with(&boc, &sc.victim, sc.max_write, sc.hash_seed, 0, spec);
                    st.bump("sim.processes");
                    if let Some(p) = &o.panic {
                        let (sig, desc) = describe_cut(&d0, &journal, &cp);
                        let v = Violation { kind: "panic_on_write_error".into(), signature: sig, detail: format!("{}\nthe run panicked: {}", desc, p) };
                        if !violations.iter().any(|x| x.kind == v.kind && x.signature == v.signature) {
                            violations.push(v);
                        }
                    }
                    // its own answers: a failed cache write is not fatal, whatever it answers must be right
                    let vt = pd(&sc.victim.today);
                    for lo in &o.lookups {
                        if lo.result.is_ok() {
                            let expect = reference.lookup(vt, sc.victim.published_today, lo.date);
                            if !same_answer(&lo.result, &expect) {
                                let (sig, desc) = describe_cut(&d0, &journal, &cp);
                                let v = Violation { kind: "answer_differs_during_write_error".into(), signature: sig, detail: format!("{}\nthat run's own look-up of {}: {} — without cache {}", desc, lo.date, show_answer(&lo.result), show_answer(&expect)) };
                                if !violations.iter().any(|x| x.kind == v.kind && x.signature == v.signature) {
                                    violations.push(v);
                                }
                            }
                        }
                    }
                    if o.proc.fs_faults_fired.is_empty() {
                        st.bump("probe.write_error_offset_not_reached");
                    }
                    with_world(|w| w.fs.disk.clone())
                }
                _ => cp.materialise(&d0, &journal),
            };
            let dg = disk.digest();
            st.bump("probe.crash_states");
            match &cp {
                CrashPoint::WriteError { .. } => st.bump("fault.write_error_disk_full"),
                CrashPoint::OpError { kind } if kind.starts_with("fsync_keeps:") => st.bump("fault.fsync_error_with_lost_write_back"),
                CrashPoint::OpError { kind } => st.bump(&format!("fault.{}_error_in_write_procedure", kind)),
                CrashPoint::Prefix { cut, .. } if *cut > 0 => st.bump("fault.crash_inside_write"),
                CrashPoint::Prefix { k, .. } => st.bump(&format!("fault.crash_after_{}", if *k == 0 { "nothing" } else { journal[*k - 1].kind() })),
                CrashPoint::PowerLoss { keep, .. } => st.bump(if *keep == 0 { "fault.power_loss_unsynced_data_lost" } else { "fault.power_loss_unsynced_data_cut" }),
            }
            if !seen_disks.insert(dg) {
                st.bump("probe.crash_states_equal_to_an_earlier_one");
                continue;
            }
            st.nontrivial.insert(dg ^ fnv64(sc.victim.today.as_bytes()));
            // recovery look-ups, chosen adversarially from what survived
            let mut dates: Vec<Date> = tail_dates(&disk);
            if let Some(l) = dates.iter().max().copied() {
                dates.push(l + Duration::days(1));
            }
            dates.push(vtoday);
            dates.push(pd(&sc.victim.lookup));
            for m in &sc.victim.more {
                dates.push(pd(m));
            }
            for e in &sc.extra_dates {
                dates.push(pd(e));
            }
            let mut seen = BTreeSet::new();
            dates.retain(|d| seen.insert(*d));
            if sc.reverse_recovery_order {
                dates.reverse();
            }
            with_world(|w| w.fs.disk = disk.clone());
            let (sig, desc) = describe_cut(&d0, &journal, &cp);
            // One recovery run: look the dates up over whatever is on the simulated disk now.
            // The same-day recovery run starts a seeded number of seconds after the victim's instant
            // (2 s ... a bit over an hour): what the victim left carries modification times, and "the
            // other process is probably still at it" is a judgement code could make from them.
            let victim_now = crate::proc::ProcEnv::new(sc.hash_seed, vtoday).now_unix();
            let recovery_base = crate::proc::ProcEnv::new(sc.hash_seed ^ 7, vtoday).now_unix();
            let soon = [2i64, 10, 25, 90, 4000][(sc.cut_seed % 5) as usize];
            let same_day_shift = victim_now + soon - recovery_base;
            let mut recover = |phase: &str, today: Date, pt: bool, sig: &str, desc: &str, st: &mut Stats, reference: &mut Reference, violations: &mut Vec<Violation>, digest: &mut u64| -> FxObs {
                if phase == "same day" && soon <= 25 {
                    st.bump("probe.recovery_run_starts_within_seconds_of_the_crash");
                }
                let obs = run_fx_process(FxPlan {
                    data: boc.clone(),
                    today,
                    published_today: pt,
                    force: false,
                    cache: CacheKind::Csv,
                    mem_in: MemState::new(),
                    lookups: dates.clone(),
                    app_rows: None,
                    app_files: 1,
                    app_console: false,
                    app_legacy_date: false,
                    app_date_fmt: 0,
                    net_faults: vec![],
                    server_today: None,
                    clock_tz: None,
                    now_shift: if phase == "same day" { same_day_shift } else { 0 },
                    session: None,
                    fs_faults: FsFaultSpec::default(),
                    knobs: Knobs::default(),
                    hash_seed: sc.hash_seed ^ 7,
                });
                st.bump("sim.processes");
                if let Some(p) = &obs.panic {
                    let v = Violation { kind: "recovery_panic".into(), signature: sig.to_string(), detail: format!("{}\nrecovery run ({}, today {}) panicked: {}", desc, phase, today, p) };
                    if !violations.iter().any(|x| x.kind == v.kind && x.signature == v.signature) {
                        violations.push(v);
                    }
                    return obs;
                }
                if obs.requests.is_empty() {
                    st.bump("probe.recovery_served_from_surviving_cache");
                } else {
                    st.bump("probe.recovery_downloaded_again");
                }
                for lo in &obs.lookups {
                    let expect = reference.lookup(today, pt, lo.date);
                    *digest = fnv64_add(*digest, show_answer(&lo.result).as_bytes());
                    st.bump("probe.recovery_lookups");
                    if !same_answer(&lo.result, &expect) {
                        let wrong_kind = match (&lo.result, &expect) {
                            (Ok((gd, gr)), _) if boc.expected_rate(*gd).map(|e| e != *gr).unwrap_or(true) => "computes with a rate that differs from the published one",
                            (Ok(_), _) => "uses another day's rate than a look-up without cache",
                            (Err(_), _) => "fails although a look-up without cache succeeds",
                        };
                        let files = with_world(|w| w.fs.disk.list_files(cache_dir_key()));
                        let v = Violation {
                            kind: "recovery_answer_differs".into(),
                            signature: sig.to_string(),
                            detail: format!("{}\nrecovery run ({}, today {}, published_today {}) look-up of {}: {} — over the surviving cache {}, without cache {}\nfiles after that run: {:?}", desc, phase, today, pt, lo.date, wrong_kind, show_answer(&lo.result), show_answer(&expect), files.iter().map(|(n, d)| format!("{} ({} bytes)", n, d.len())).collect::<Vec<_>>()),
                        };
                        if !violations.iter().any(|x| x.kind == v.kind && x.signature == v.signature) {
                            violations.push(v);
                        }
                    }
                }
                obs
            };
            let obs_a = recover("same day", vtoday, sc.victim.published_today, &sig, &desc, st, &mut reference, &mut violations, &mut digest);
            let disk_after_a = with_world(|w| w.fs.disk.clone());
            // Second crash: the recovery run that downloads again is itself killed while writing.
            distinct_states += 1;
            if sc.second_crash_every > 0 && distinct_states % sc.second_crash_every == 0 && obs_a.panic.is_none() {
                let ja = &obs_a.proc.journal;
                let wr: Vec<usize> = ja.iter().enumerate().filter_map(|(i, o)| if matches!(o, Op::Write { .. }) { Some(i) } else { None }).collect();
                if !wr.is_empty() {
                    let mut r2 = Rng::new(sc.cut_seed ^ dg);
                    for _ in 0..sc.second_crash_samples {
                        let cp2 = if r2.chance(1, 3) {
                            CrashPoint::Prefix { k: r2.range(0, ja.len() as i64) as usize, cut: 0 }
                        } else {
                            let k = *r2.pick(&wr);
                            let n = if let Op::Write { data, .. } = &ja[k] { data.len() } else { 1 };
                            // bias towards the tail of the file, where a cut row is a recent date
                            let cut = if n > 40 && r2.chance(1, 2) { n - 1 - r2.range(0, 39) as usize } else { r2.range(1, (n as i64 - 1).max(1)) as usize };
                            CrashPoint::Prefix { k, cut }
                        };
                        let disk2 = cp2.materialise(&disk, ja);
                        let (sig2, desc2) = describe_cut(&disk, ja, &cp2);
                        with_world(|w| w.fs.disk = disk2);
                        st.bump("fault.second_crash_during_recovery_write");
                        let sig_b = format!("second crash, during the recovery run's own cache write: {}", sig2);
                        let desc_b = format!("{}\nthen the same-day recovery run was killed too: {}", desc, desc2);
                        let _ = recover("later day, after a second crash", later, sc.later_published_today, &sig_b, &desc_b, st, &mut reference, &mut violations, &mut digest);
                    }
                }
            }
            // A run in between that has nothing to do with the interrupted year: it looks up one date of
            // ANOTHER year (and usually downloads and writes that year), completes normally, and only
            // then does a run ask for the dates around the cut. (Every n-th distinct state.)
            if sc.second_crash_every > 0 && distinct_states % sc.second_crash_every == 1 {
                let years: BTreeSet<i32> = dates.iter().map(|d| d.year()).collect();
                let other = (boc.cal.start_year..boc.cal.start_year + boc.cal.n_years as i32).rev().find(|y| !years.contains(y) && ymd(*y, 6, 15) < vtoday).or_else(|| Some(boc.cal.start_year - 1));
                if let Some(oy) = other {
                    with_world(|w| w.fs.disk = disk.clone());
                    let mid = run_fx_process(FxPlan {
                        data: boc.clone(),
                        today: vtoday,
                        published_today: sc.victim.published_today,
                        force: false,
                        cache: CacheKind::Csv,
                        mem_in: MemState::new(),
                        lookups: vec![ymd(oy, 6, 15)],
                        app_rows: None,
                        app_files: 1,
                        app_console: false,
                        app_legacy_date: false,
                        app_date_fmt: 0,
                        net_faults: vec![],
                        server_today: None,
                        clock_tz: None,
                        now_shift: 0,
                        session: None,
                        fs_faults: FsFaultSpec::default(),
                        knobs: Knobs::default(),
                        hash_seed: sc.hash_seed ^ 9,
                    });
                    st.bump("sim.processes");
                    if mid.panic.is_none() {
                        st.bump("fault.unrelated_complete_run_between_crash_and_recovery");
                        let sig_m = format!("{}; then a complete run that only touched another year", sig);
                        let desc_m = format!("{}\nthen a run looked up {} (another year), completed normally, and only then the dates around the cut were asked for", desc, ymd(oy, 6, 15));
                        let _ = recover("same day, after an unrelated complete run", vtoday, sc.victim.published_today, &sig_m, &desc_m, st, &mut reference, &mut violations, &mut digest);
                    }
                }
            }
            with_world(|w| w.fs.disk = disk_after_a.clone());
            let obs_b = recover("later day", later, sc.later_published_today, &sig, &desc, st, &mut reference, &mut violations, &mut digest);
            // The later-day run usually downloads again (new dates): it, too, may be killed while it
            // writes, and a run one more day on recovers from that. (Every n-th distinct state.)
            if sc.second_crash_every > 0 && distinct_states % sc.second_crash_every == 2 && obs_b.panic.is_none() {
                let jb = &obs_b.proc.journal;
                let wr: Vec<usize> = jb.iter().enumerate().filter_map(|(i, o)| if matches!(o, Op::Write { .. }) { Some(i) } else { None }).collect();
                if !wr.is_empty() {
                    let mut r3 = Rng::new(sc.cut_seed ^ dg ^ 0x33);
                    let later2 = (later + Duration::days(1)).min(boc.last_day() + Duration::days(1));
                    for _ in 0..sc.second_crash_samples {
                        let cp3 = if r3.chance(1, 3) {
                            CrashPoint::Prefix { k: r3.range(0, jb.len() as i64) as usize, cut: 0 }
                        } else {
                            let k = *r3.pick(&wr);
                            let n = if let Op::Write { data, .. } = &jb[k] { data.len() } else { 1 };
                            let cut = if n > 40 && r3.chance(1, 2) { n - 1 - r3.range(0, 39) as usize } else { r3.range(1, (n as i64 - 1).max(1)) as usize };
                            CrashPoint::Prefix { k, cut }
                        };
                        let disk3 = cp3.materialise(&disk_after_a, jb);
                        let (sig3, desc3) = describe_cut(&disk_after_a, jb, &cp3);
                        with_world(|w| w.fs.disk = disk3);
                        st.bump("fault.later_day_run_killed_while_writing_too");
                        let sig_c = format!("later crash, during the later-day run's own cache write: {}", sig3);
                        let desc_c = format!("{}\nthe same-day run recovered; then the later-day run was killed too: {}", desc, desc3);
                        let _ = recover("one more day on, after the later-day run was killed", later2, sc.later_published_today, &sig_c, &desc_c, st, &mut reference, &mut violations, &mut digest);
                    }
                }
            }
            let pos = sig.clone();
            st.state(&[&pos, if sc.prior.is_some() { "older-file" } else { "no-file" }]);
        }
        st.add("sim.reference_processes", reference.evaluated);
        st.add("sim.processes", reference.evaluated);
        st.add("sim.days", sc.later_day_offset.max(0) as u64);
        ExecOut { violations, digest, nontrivial: false }
    }

    fn shrink(&self, sc: &Sc) -> Vec<Sc> {
        let mut c = vec![];
        if sc.prior.is_some() {
            let mut s = sc.clone();
            s.prior = None;
            c.push(s);
        }
        if sc.pre_crash.is_some() {
            let mut s = sc.clone();
            s.pre_crash = None;
            c.push(s);
        }
        if sc.junk_files {
            let mut s = sc.clone();
            s.junk_files = false;
            c.push(s);
        }
        if sc.odd_cache_dir {
            let mut s = sc.clone();
            s.odd_cache_dir = false;
            c.push(s);
        }
        if sc.linked_cache > 0 {
            let mut s = sc.clone();
            s.linked_cache = 0;
            c.push(s);
        }
        if sc.second_crash_every > 0 {
            let mut s = sc.clone();
            s.second_crash_every = 0;
            c.push(s);
        }
        if !sc.extra_dates.is_empty() {
            let mut s = sc.clone();
            s.extra_dates.clear();
            c.push(s);
        }
        if sc.max_write != usize::MAX {
            let mut s = sc.clone();
            s.max_write = usize::MAX;
            c.push(s);
        }
        if sc.victim.force {
            let mut s = sc.clone();
            s.victim.force = false;
            c.push(s);
        }
        for i in 0..sc.victim.more.len() {
            let mut s = sc.clone();
            s.victim.more.remove(i);
            c.push(s);
        }
        if sc.pre_crash_clock_ahead != 0 {
            let mut s = sc.clone();
            s.pre_crash_clock_ahead = 0;
            c.push(s);
        }
        for i in 0..sc.cal.gaps.len() {
            let mut s = sc.clone();
            s.cal.gaps.remove(i);
            c.push(s);
        }
        if sc.cal.holidays.len() > 2 {
            let mut s = sc.clone();
            s.cal.holidays.truncate(sc.cal.holidays.len() / 2);
            c.push(s);
            let mut s = sc.clone();
            s.cal.holidays.drain(..sc.cal.holidays.len() / 2);
            c.push(s);
        }
        if sc.format != JsonFormat::default() {
            let mut s = sc.clone();
            s.format = JsonFormat::default();
            c.push(s);
        }
        if sc.later_day_offset > 1 {
            let mut s = sc.clone();
            s.later_day_offset = 1;
            c.push(s);
        }
        c
    }

    fn focus(&self, sc: &Sc, v: &Violation) -> Option<Sc> {
        // detail starts with "crash point <json>:"
        let rest = v.detail.strip_prefix("crash point ")?;
        let end = rest.find("}:")?;
        let cp: CrashPoint = serde_json::from_str(&rest[..=end]).or_else(|_| serde_json::from_str(&rest[..=end + 1])).ok()?;
        let mut s = sc.clone();
        s.only_state = Some(cp);
        Some(s)
    }

    fn sample(&self, sc: &Sc) -> Value {
        json!({"calendar": {"start_year": sc.cal.start_year, "years": sc.cal.n_years, "holidays": sc.cal.holidays.len(), "gaps": sc.cal.gaps},
               "prior_run": sc.prior, "earlier_killed_run": sc.pre_crash.as_ref().map(|p| &p.0), "victim_run": sc.victim, "second_crash": format!("every {}th distinct crash state, {} sampled points of the recovery run's journal", sc.second_crash_every, sc.second_crash_samples), "max_write": if sc.max_write == usize::MAX { json!("unlimited") } else { json!(sc.max_write) },
               "recovery": {"same_day": sc.victim.today, "later_day_offset": sc.later_day_offset, "extra_dates": sc.extra_dates, "reverse_order": sc.reverse_recovery_order},
               "crash_points": match sc.sample_cuts { None => json!("every operation boundary and every byte offset of every write"), Some(n) => json!(format!("every operation boundary + {} sampled byte offsets", n)) } })
    }
    fn hang_or_death_is_violation(&self) -> bool {
        true
    }
    fn level(&self) -> &'static str {
        "fault_enumeration"
    }
    fn rule(&self) -> String {
        "Per seeded scenario (calendar, victim day in early January / December / mid-year so the year file is ~100 B, ~6 KiB or >8 KiB = two write calls, optional earlier complete run leaving an older file, legal short writes, a look-up that makes the process download - Jan 1-7 look-backs write two year files) the real download+cache-write path runs once, fault-free, while SimFs journals every operation. Fault space: every prefix of that journal = a crash after each operation (mkdir, chmod, create, truncate, each write, fsync, rename, close) and inside every write at byte offsets (thorough: all of them; quick: all operation boundaries + ~192 offsets biased to the last three rows and the first row). Power loss adds, after every rename/link and at the end, states in which un-synced data of a file is lost entirely or cut (thorough: every offset; quick: 48 biased offsets). Write errors add states produced by re-executing the run live with the disk filling up after N bytes (ENOSPC: short write, then errors; quick 14, thorough 96 offsets biased to the last rows, to just past every 8 KiB buffer boundary and to the first row): the run handles the error and exits, its own answers must be right, and the recovery history runs over what it left. A third of the scenarios start from the debris of an even earlier killed run (e.g. a stale temporary file); in half of those that run's clock was 3-60 days ahead (a clock jump corrected afterwards), so its year content is longer than anything a correct run writes, and it died before its first rename. A third of the victims look further dates up in other years and write up to four year files. A quarter of the scenarios put foreign files with wrong rates into the directory, an eighth use a directory whose path is not valid UTF-8, a sixth keep the cache behind links (year files that are symbolic links into another directory, the directory itself a symbolic link, dangling links, or year files with a second hard link). For each distinct surviving disk, two fresh simulated processes (same day; a later day) look up every date in the last three and the first surviving rows, the day after, today, the victim's date and two seeded dates. For every n-th distinct state (quick 24th, thorough 6th) the same-day recovery run, which usually downloads again, is itself killed at sampled points of its own journalled write, and the later-day run recovers from that. Oracle: each recovery look-up equals the look-up by the real code with no cache. evaluations = crash states explored; distinct_nontrivial = distinct surviving disks (digest of names + contents).".to_string()
    }
    fn state_measure(&self) -> String {
        "distinct (crash position class: step boundary kind + target, or write target + cut position within the row; older file present) pairs".to_string()
    }
    fn assumptions(&self) -> Vec<String> {
        vec![
            "kill model: the surviving disk is the result of a prefix of the process's file-system operations in program order, the last write possibly cut at any byte (the quantifier of C14)".to_string(),
            "power-loss model ('or the machine loses power'): after a rename/link or at the end of the procedure every name change is durable while, of the data written to a file since its last fsync, only a prefix (possibly nothing) reached the disk; data covered by an fsync is never lost; other reorderings (e.g. a lost rename) only yield states the kill model already contains".to_string(),
            "clock jump: an earlier killed run may have had its clock set ahead (its server snapshot is the real day's); it is always killed before its first name change, so only a temporary file ever holds what the wrong clock produced; if the write procedure has no name change nothing of that run is kept".to_string(),
            "write-error model: an interrupted write also means a write that fails (disk full, quota, file-size limit): ENOSPC after N bytes written by the run, a short write first; the run is not killed".to_string(),
            "recovery runs see a healthy server whose snapshot contains every rate published before their today".to_string(),
            "the no-cache reference is the real code itself".to_string(),
        ]
    }
    fn real_components(&self) -> Vec<&'static str> {
        vec!["RateLoader download path + fill_in_unknown_day_rates", "CsvRatesCache::write_rates / get_usd_cad_rates", "util::os::mk_writable_dir", "std::fs + std::io + csv::Writer (real write chunking)", "JsonRemoteRateLoader + parse_rates_json"]
    }
    fn stub_components(&self) -> Vec<&'static str> {
        vec!["kernel file system (SimFs journal, prefix materialisation)", "HTTP transport (SimBoC)", "clock", "entropy", "process boundary"]
    }
    fn required_probes(&self, tier: Tier) -> Vec<&'static str> {
        let v = vec![
            // (how many files and write calls a run uses is the implementation's business: reported, not required)
            "probe.victim_wrote_cache",
            "probe.older_complete_file_present",
            "probe.file_size_tiny",
            "probe.file_size_one_buffer",
            "probe.file_size_over_8k",
            "fault.crash_inside_write",
            "fault.crash_after_create",
            "fault.crash_after_write",
            "probe.recovery_served_from_surviving_cache",
            "probe.recovery_downloaded_again",
            "probe.earlier_run_was_killed_too",
            "fault.second_crash_during_recovery_write",
            "fault.unrelated_complete_run_between_crash_and_recovery",
            "fault.later_day_run_killed_while_writing_too",
            "fault.write_error_disk_full",
            "fault.clock_set_ahead_in_an_earlier_killed_run",
            "probe.cache_directory_also_holds_foreign_files_with_wrong_rates",
            "probe.cache_directory_path_is_not_valid_utf8",
            "probe.cache_directory_is_a_symbolic_link",
            "probe.cache_year_files_are_symbolic_links",
            "probe.cache_year_files_have_a_second_hard_link",
        ];
        let _ = tier;
        v
    }
    fn exhaustive_note(&self) -> Option<String> {
        Some("thorough: per sampled scenario the crash-point axis (every operation boundary and every byte offset of every write of the journalled cache write) is enumerated completely; scenarios themselves are sampled".to_string())
    }
    fn evaluations(&self, st: &Stats, _scenarios: u64) -> u64 {
        st.get("probe.crash_states")
    }
}

pub fn warm_up() {
    let mut sc = generate(0xC14, Tier::Quick);
    sc.sample_cuts = Some(8);
    let mut st = Stats::default();
    let _ = C14.execute(&sc, &mut st);
}
