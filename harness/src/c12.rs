//! fxsim / config `fresh` (+ `obs_malformed`) — C12: a USD amount without an
//! explicit rate uses the Bank of Canada rate of the trade date or the last
//! one published within the preceding seven days; never a later, zero or
//! older rate; an explanatory error when none exists.
//!
//! System: the real RateLoader + JsonRemoteRateLoader + parse_rates_json (and,
//! on the application path, parse_tx_csv + load_tx_rates + Tx::try_from) in a
//! fresh simulated process per look-up, over SimBoC with a simulated "today".
//! Oracle: the 20-line reference model fx::ref_lookup — not the code.

use crate::common::*;
use crate::fx::*;
use crate::prng::{fnv64, fnv64_add, Rng};
use crate::simfs::Knobs;
use rust_decimal::Decimal;
use serde::{Deserialize, Serialize};
use serde_json::{json, Value};
use std::str::FromStr;
use std::sync::Arc;
use time::Duration;

type FxObsRef = std::rc::Rc<FxObs>;

#[derive(Clone, Debug, Serialize, Deserialize, PartialEq)]
pub struct Sc {
    pub cal: Calendar,
    pub format: JsonFormat,
    pub malformed: Vec<(String, String)>,
    pub today: String,
    pub published_today: bool,
    pub lookups: Vec<String>,
    /// Several look-ups by ONE loader (the rows of one CSV file share it), empty cache.
    #[serde(default)]
    pub sequences: Vec<Vec<String>>,
    pub app_runs: Vec<Vec<AppRow>>,
    /// per application run: number of CSV files the rows are spread over (one shared loader)
    #[serde(default)]
    pub app_run_files: Vec<usize>,
    /// the CSV files use the deprecated 'date' column for the settlement date
    #[serde(default)]
    pub legacy_date_col: bool,
    /// --date-fmt of the application runs: 0 default, 1 [month]/[day]/[year], 2 [day].[month].[year]
    #[serde(default)]
    pub date_fmt: u8,
    /// Some(h): every process of this simulation learns "today" from the simulated system clock and
    /// TZ (h hours west of UTC; negative = east), through the real today_local(), not the test override.
    #[serde(default)]
    pub clock_tz: Option<i8>,
    /// End-to-end lane: the first application run whose rows all have an answer is also executed by
    /// the REAL acb binary (clap, main, home-directory look-up, real clock and file system) over a
    /// pre-populated ~/.acb that covers every date the rows need, so that no network is reached.
    #[serde(default)]
    pub e2e: bool,
    /// Look-ups over a cache an earlier run left behind, while the network misbehaves.
    #[serde(default)]
    pub degraded: Vec<Degraded>,
    pub hash_seed: u64,
}

#[derive(Clone, Debug, Serialize, Deserialize, PartialEq)]
pub struct Degraded {
    /// the earlier run happened this many days before today ...
    pub warm_days_before: i64,
    pub warm_published_today: bool,
    /// ... and looked these dates up (healthy network), leaving its cache behind
    pub warm_lookups: Vec<String>,
    pub csv_cache: bool,
    /// today's run: look-ups by one loader, and the fault plan per request
    pub lookups: Vec<String>,
    pub net_faults: Vec<Option<String>>,
}

pub fn generate(seed: u64) -> Sc {
    let mut r = Rng::new(seed);
    let cal = gen_calendar(&mut r);
    let mut format = gen_format(&mut r);
    let boc0 = BocData::new(&cal, &format, &[]);
    let today = gen_today(&mut r, &boc0);
    let published_today = r.chance(1, 2);
    let n = r.range(4, 14);
    let mut lookups = vec![];
    for _ in 0..n {
        lookups.push(interesting_date(&mut r, &boc0, today));
    }
    // now and then a date in the year before the calendar starts: a year without any publication
    if r.chance(1, 6) {
        let first = ymd(cal.start_year, 1, 1);
        lookups.push(first - Duration::days(*r.pick(&[1i64, 2, 5, 9, 40, 300])));
    }
    // obs_malformed configuration: a fifth of the simulations damage a few observations,
    // preferably ones a look-up will want.
    let mut malformed = vec![];
    if r.chance(1, 5) {
        for _ in 0..r.range(1, 4) {
            let base = *r.pick(&lookups);
            let d = base - Duration::days(r.range(0, 3));
            if boc0.published.contains_key(&d) && !malformed.iter().any(|(x, _): &(String, String)| *x == d.to_string()) {
                malformed.push((d.to_string(), r.pick(&MALFORMED_KINDS).to_string()));
            }
        }
    }
    let mut sequences = vec![];
    for _ in 0..r.range(1, 2) {
        let mut seq: Vec<time::Date> = vec![];
        let mut cur = *r.pick(&lookups);
        for _ in 0..r.range(2, 5) {
            seq.push(cur);
            cur = match r.weighted(&[5, 2, 2]) {
                0 => cur + Duration::days(r.range(-4, 4)),
                1 => cur + Duration::days(*r.pick(&[-8i64, -7, 7, 8])),
                _ => *r.pick(&lookups),
            };
        }
        sequences.push(seq.iter().map(|d| d.to_string()).collect());
    }
    let mut app_runs = vec![];
    // (its own stream: the rest of the scenario is what it was before rows had affiliates)
    let mut raff = Rng::new(crate::prng::mix(seed, 0xAFF1, 12));
    for _ in 0..r.range(1, 3) {
        let mut rows = vec![];
        for _ in 0..r.range(1, 5) {
            let trade = if r.chance(3, 4) { *r.pick(&lookups) } else { interesting_date(&mut r, &boc0, today) };
            let explicit = format!("1.{:04}", r.range(1000, 4999));
            let mut row = AppRow::usd(&trade.to_string());
            row.settle_off = r.range(1, 4);
            row.sell = false;
            match r.weighted(&[8, 4, 2, 2, 1, 1, 1, 1, 1]) {
                0 => {}
                1 => row.fx = Some(explicit.clone()),
                2 => row.cur = None,
                3 => row.cur = Some("CAD".into()),
                4 => {
                    row.cur = Some("CAD".into());
                    row.fx = Some("1".into());
                }
                5 => {
                    row.cur = Some("CAD".into());
                    // any rate other than 1 is refused - including the ones that round to 1
                    row.fx = Some(if r.chance(1, 2) { explicit.clone() } else { (*r.pick(&["1.04", "0.97", "1.0001", "0.9999", "1.049"])).to_string() });
                }
                6 => row.cur = Some("EUR".into()),
                7 => {
                    row.cur = Some("EUR".into());
                    row.fx = Some(explicit.clone());
                }
                _ => {
                    row.cur = Some((*r.pick(&["usd", "Usd", " USD ", "usd "])).to_string());
                }
            }
            if r.chance(1, 12) && row.cur.is_some() {
                // a degenerate explicit rate: 1 is a rate like any other (what the tool does with a zero
                // or negative rate, or with a rate that has no currency, the property does not say:
                // not generated)
                row.fx = Some((*r.pick(&["1", "1.0", "1.0000"])).to_string());
            }
            row.sell = r.chance(1, 4);
            // a return of capital carries a per-share amount in the row's currency and needs the same rate
            row.roc = r.chance(1, 8);
            if row.roc {
                row.sell = false;
            }
            row.other_security = r.chance(1, 5);
            row.affiliate = raff.weighted(&[5, 1, 2, 1]) as u8;
            // explicit zeros are amounts like any other: they do not excuse a missing rate
            row.zero_price = !row.roc && r.chance(1, 12);
            if !row.roc && r.chance(1, 2) {
                row.commission = true;
                row.zero_commission = r.chance(1, 6);
                match r.weighted(&[4, 2, 2, 1, 1, 1]) {
                    0 => {}
                    1 => row.ccur = Some("USD".into()),
                    2 => {
                        row.ccur = Some("USD".into());
                        row.cfx = Some(format!("1.{:04}", r.range(1000, 4999)));
                    }
                    3 => row.ccur = Some("CAD".into()),
                    4 => {
                        row.ccur = Some("CAD".into());
                        row.cfx = Some(if r.chance(1, 2) { format!("1.{:04}", r.range(1000, 4999)) } else { (*r.pick(&["1.04", "0.97", "1.0001"])).to_string() });
                    }
                    _ => row.ccur = Some("GBP".into()),
                }
            }
            rows.push(row);
        }
        app_runs.push(rows);
    }
    // Look-ups over an earlier run's cache while the network misbehaves: the stale cache must
    // never stand in for the download that failed.
    let mut degraded = vec![];
    if r.chance(1, 3) {
        for _ in 0..r.range(1, 2) {
            let before = *r.pick(&[1i64, 2, 3, 5, 8, 12, 30, 370]);
            let first = ymd(cal.start_year, 1, 1);
            let wtoday = (today - Duration::days(before)).max(first + Duration::days(1));
            let before = (today - wtoday).whole_days();
            let mut warm_lookups = vec![];
            for _ in 0..r.range(1, 3) {
                warm_lookups.push((wtoday - Duration::days(r.range(0, 9))).max(first).to_string());
            }
            let mut lk = vec![];
            for _ in 0..r.range(1, 4) {
                lk.push(match r.weighted(&[4, 3, 2]) {
                    0 => today - Duration::days(r.range(0, before.min(12) + 2)),
                    1 => wtoday + Duration::days(r.range(-3, 9)),
                    _ => *r.pick(&lookups),
                }.max(first));
            }
            // a third of these runs meet a healthy network: a plain run over an earlier run's cache
            let healthy = r.chance(1, 3);
            let nf: Vec<Option<String>> = (0..8).map(|_| if !healthy && r.chance(1, 2) { Some(r.pick(&NET_FAULT_KINDS).to_string()) } else { None }).collect();
            degraded.push(Degraded { warm_days_before: before, warm_published_today: r.chance(1, 2), warm_lookups, csv_cache: r.chance(2, 3), lookups: lk.iter().map(|d| d.to_string()).collect(), net_faults: nf });
        }
    }
    // The order in which the server lists the observations is a matter of format.
    format.obs_order = r.weighted(&[14, 2, 2, 2, 2]) as u8;
    format.order_seed = r.next_u64();
    Sc {
        cal,
        format,
        malformed,
        degraded,
        today: today.to_string(),
        published_today,
        lookups: lookups.iter().map(|d| d.to_string()).collect(),
        sequences,
        app_run_files: app_runs.iter().map(|_| r.range(1, 3) as usize).collect(),
        legacy_date_col: r.chance(1, 5),
        date_fmt: r.weighted(&[6, 1, 1, 2]) as u8,
        e2e: r.chance(1, 12),
        clock_tz: if r.chance(1, 3) { Some(*r.pick(&[5i8, 8, 12, -1, -9, -13])) } else { None },
        app_runs,
        hash_seed: r.next_u64(),
    }
}

/// Expected (currency, rate) of one side of a row per the property text, or Err.
fn expected_side(
    boc: &BocData,
    today: time::Date,
    pt: bool,
    trade: time::Date,
    cur: &Option<String>,
    fx: &Option<String>,
) -> Result<Option<(String, Decimal)>, String> {
    let cur_u = cur.as_ref().map(|c| c.trim().to_uppercase());
    let fxv = match fx {
        Some(f) => {
            let v = Decimal::from_str(f.trim()).unwrap();
            if v <= Decimal::ZERO {
                return Err("an exchange rate must be positive".into());
            }
            Some(v)
        }
        None => None,
    };
    match (cur_u.as_deref(), fxv) {
        (None, None) => Ok(None),
        (None, Some(_)) => Err("rate without currency".into()),
        (Some("CAD"), None) => Ok(Some(("CAD".into(), Decimal::ONE))),
        (Some("CAD"), Some(v)) => {
            if v == Decimal::ONE {
                Ok(Some(("CAD".into(), v)))
            } else {
                Err("CAD only accepts 1".into())
            }
        }
        (Some(c), Some(v)) => Ok(Some((c.to_string(), v))),
        (Some("USD"), None) => match ref_lookup(boc, today, pt, trade) {
            RefAnswer::Rate { date, .. } => Ok(Some(("USD".into(), boc.expected_rate(date).unwrap()))),
            RefAnswer::NoRate => Err("no rate".into()),
        },
        (Some(_), None) => Err("other currency must carry its own rate".into()),
    }
}

fn rate_matches(boc: &BocData, date: time::Date, got: &Decimal, malformed_cfg: bool) -> bool {
    let _ = malformed_cfg;
    let v = Decimal::from_str(&boc.published[&date]).unwrap();
    if date.year() >= 2017 {
        // daily observation must be inverted: |rate * v - 1| < 1e-20
        let prod = got.checked_mul(v);
        match prod {
            // 1e-9: the noise bound the properties use for decimal arithmetic (C01); an inversion
            // carried to fewer than 28 digits is still "inverted", one rounded to 6 places is not
            Some(p) => (p - Decimal::ONE).abs() < Decimal::from_str("0.000000001").unwrap(),
            None => false,
        }
    } else {
        *got == v
    }
}

pub struct C12;

impl Engine for C12 {
    type Sc = Sc;
    fn property(&self) -> &'static str {
        "C12"
    }
    fn engine_name(&self) -> &'static str {
        "fxsim/fresh"
    }
    fn lane(&self) -> u64 {
        12
    }
    fn budget(&self, tier: Tier) -> (u64, u64) {
        match tier {
            Tier::Quick => (12_000, 60),
            Tier::Thorough => (400_000, 1200),
        }
    }
    fn generate(&self, seed: u64, _index: u64, _tier: Tier) -> Sc {
        generate(seed)
    }

    fn execute(&self, sc: &Sc, st: &mut Stats) -> ExecOut {
        let boc = Arc::new(BocData::new(&sc.cal, &sc.format, &sc.malformed));
        let today = pd(&sc.today);
        let pt = sc.published_today;
        let malformed_cfg = !sc.malformed.is_empty();
        let mut violations: Vec<Violation> = vec![];
        let mut digest = fnv64(b"c12");
        let mut nontrivial = false;
        let mut push = |v: Violation, violations: &mut Vec<Violation>| {
            if !violations.iter().any(|x| x.kind == v.kind && x.signature == v.signature) {
                violations.push(v);
            }
        };
        st.add("sim.days", 0);
        if sc.cal.value_seed % 4 == 0 {
            st.bump("probe.calendar_around_par_noon_below_1_daily_above_1");
        }
        if let Some(h) = sc.clock_tz {
            st.bump(if h > 0 { "probe.today_from_system_clock_west_of_utc" } else { "probe.today_from_system_clock_east_of_utc" });
        }
        match sc.format.obs_order {
            1 => st.bump("probe.observations_listed_descending"),
            2 => st.bump("probe.observations_listed_late"),
            3 => st.bump("probe.observations_listed_twice"),
            4 => st.bump("probe.observations_outside_the_requested_range_listed"),
            _ => {}
        }
        let mut processes: Vec<Vec<time::Date>> = sc.lookups.iter().map(|ds| vec![pd(ds)]).collect();
        for seq in &sc.sequences {
            processes.push(seq.iter().map(|ds| pd(ds)).collect());
            st.bump("probe.shared_loader_sequences");
        }
        let mut flat: Vec<(time::Date, FxObsRef, usize, usize)> = vec![];
        for plist in &processes {
            crate::interpose::with_world(|w| w.fs.disk = crate::simfs::Disk::new());
            let obs = std::rc::Rc::new(run_fx_process(FxPlan {
                data: boc.clone(),
                today,
                published_today: pt,
                force: false,
                cache: CacheKind::Mem,
                mem_in: MemState::new(),
                lookups: plist.clone(),
                app_rows: None,
                app_files: 1,
                app_console: false,
                app_legacy_date: false,
                app_date_fmt: 0,
                net_faults: vec![],
                server_today: None,
                clock_tz: sc.clock_tz,
                now_shift: 0,
                session: None,
                fs_faults: FsFaultSpec::default(),
                knobs: Knobs::default(),
                hash_seed: sc.hash_seed,
            }));
            st.bump("sim.processes");
            for (i, d) in plist.iter().enumerate() {
                flat.push((*d, obs.clone(), i, plist.len()));
            }
        }
        for (d, obs, li, plen) in flat {
            let expect = ref_lookup(&boc, today, pt, d);
            let got = match &obs.panic {
                Some(p) => Err(format!("PANIC: {}", p)),
                None => obs.lookups[li].result.clone(),
            };
            let seq_note = if plen > 1 { format!(" [look-up #{} of {} by one loader: {:?}]", li, plen, obs.lookups.iter().map(|l| l.date.to_string()).collect::<Vec<_>>()) } else { String::new() };
            digest = fnv64_add(digest, show_answer(&got).as_bytes());
            // probes / abstract state
            if d.year() < sc.cal.start_year {
                st.bump("probe.date_in_a_year_without_any_publication");
            }
            let crosses_year = matches!(&expect, RefAnswer::Rate { date, .. } if date.year() != d.year()) || (expect == RefAnswer::NoRate && d < today && (d - Duration::days(7)).year() != d.year());
            let rel = if d > today {
                "future"
            } else if d == today {
                if pt {
                    "today_published"
                } else {
                    "today_unpublished"
                }
            } else {
                "past"
            };
            match &expect {
                RefAnswer::Rate { depth, .. } => {
                    st.bump(&format!("probe.lookback_depth_{}", depth));
                    if *depth > 0 {
                        nontrivial = true;
                    }
                }
                RefAnswer::NoRate => {
                    if d < today {
                        st.bump("probe.lookback_exhausted_8_days");
                    }
                    nontrivial = true;
                }
            }
            if crosses_year {
                st.bump("probe.lookback_crosses_year");
                let yprev = d.year() - 1;
                if series_for_year(yprev) != series_for_year(d.year()) {
                    st.bump("probe.lookback_crosses_noon_daily_seam");
                }
            }
            st.bump(&format!("probe.date_{}", rel));
            if malformed_cfg {
                let touched = ref_touched(&boc, today, pt, d);
                if touched.iter().any(|x| boc.malformed.contains_key(x)) {
                    st.bump("fault.obs_malformed_on_lookup_path");
                    for x in &touched {
                        if let Some(k) = boc.malformed.get(x) {
                            st.bump(&format!("fault.obs_{}", k));
                        }
                    }
                }
            }
            let depth_s = match &expect {
                RefAnswer::Rate { depth, .. } => depth.to_string(),
                _ => "none".into(),
            };
            st.state(&[&depth_s, if crosses_year { "x" } else { "-" }, series_for_year(d.year()), rel, if malformed_cfg { "mal" } else { "ok" }]);

            if obs.panic.is_some() {
                push(Violation { kind: "panic".into(), signature: "panic in look-up".into(), detail: format!("look-up of {} (today {}, published_today {}) panicked: {}", d, today, pt, show_answer(&got)) }, &mut violations);
                continue;
            }
            if !obs.proc.unmodelled.is_empty() {
                st.harness_error(format!("unmodelled call: {:?}", obs.proc.unmodelled));
            }
            match (&expect, &got) {
                (RefAnswer::Rate { date, depth }, Ok((gd, gr))) => {
                    if gd != date {
                        let sig = if *gd > d { "rate of a later day" } else if (d - *gd).whole_days() > 7 { "rate older than 7 days" } else { "wrong day's rate" };
                        push(Violation { kind: "wrong_rate_date".into(), signature: sig.into(), detail: format!("look-up of {} (today {}, published_today {}): reference model says rate of {} (look-back {}), code returned rate of {} = {}{}", d, today, pt, date, depth, gd, gr, seq_note) }, &mut violations);
                    } else if !rate_matches(&boc, *date, gr, malformed_cfg) {
                        let sig = if gr.is_zero() { "zero placeholder returned" } else if date.year() >= 2017 { "daily observation not inverted correctly" } else { "noon observation altered" };
                        push(Violation { kind: "wrong_rate_value".into(), signature: sig.into(), detail: format!("look-up of {}: rate of {} published as v={} ({}), code returned {}", d, date, boc.published[date], series_for_year(date.year()), gr) }, &mut violations);
                    }
                }
                (RefAnswer::NoRate, Err(msg)) => {
                    if msg.trim().is_empty() {
                        push(Violation { kind: "empty_error".into(), signature: "error without explanation".into(), detail: format!("look-up of {} failed with an empty message", d) }, &mut violations);
                    }
                }
                (RefAnswer::NoRate, Ok((gd, gr))) => {
                    let sig = if gr.is_zero() {
                        "zero placeholder returned"
                    } else if *gd > d {
                        "rate of a later day"
                    } else if (d - *gd).whole_days() > 7 {
                        "rate older than 7 days"
                    } else if d >= today {
                        "rate for today-or-later without publication"
                    } else {
                        "rate where none exists"
                    };
                    push(Violation { kind: "rate_where_none_exists".into(), signature: sig.into(), detail: format!("look-up of {} (today {}, published_today {}): reference model says no usable rate, code returned rate of {} = {}{}", d, today, pt, gd, gr, seq_note) }, &mut violations);
                }
                (RefAnswer::Rate { date, depth }, Err(msg)) => {
                    // With damaged observations a stricter implementation may legitimately refuse.
                    if !malformed_cfg {
                        push(Violation { kind: "error_where_rate_exists".into(), signature: format!("error although a rate exists (look-back {})", if *depth == 0 { "0".to_string() } else { "1-7".to_string() }), detail: format!("look-up of {} (today {}, published_today {}): reference model says rate of {} (look-back {}), code failed: {}{}", d, today, pt, date, depth, msg.lines().next().unwrap_or(""), seq_note) }, &mut violations);
                    } else {
                        st.bump("probe.malformed_cfg_refused");
                    }
                }
            }
        }

        // Degraded network over an earlier run's cache: an earlier process (healthy network)
        // leaves its cache behind; today's process meets network faults. Any answer it gives
        // must be the model's; it may fail only where a fault fired during that look-up.
        for dg in &sc.degraded {
            crate::interpose::with_world(|w| w.fs.disk = crate::simfs::Disk::new());
            let wtoday = today - Duration::days(dg.warm_days_before);
            let cache = if dg.csv_cache { CacheKind::Csv } else { CacheKind::Mem };
            let warm = run_fx_process(FxPlan {
                data: boc.clone(),
                today: wtoday,
                published_today: dg.warm_published_today,
                force: false,
                cache: cache.clone(),
                mem_in: MemState::new(),
                lookups: dg.warm_lookups.iter().map(|d| pd(d)).collect(),
                app_rows: None,
                app_files: 1,
                app_console: false,
                app_legacy_date: false,
                app_date_fmt: 0,
                net_faults: vec![],
                server_today: None,
                clock_tz: sc.clock_tz,
                now_shift: 0,
                session: None,
                fs_faults: FsFaultSpec::default(),
                knobs: Knobs::default(),
                hash_seed: sc.hash_seed ^ 0x11,
            });
            st.bump("sim.processes");
            st.add("sim.days", dg.warm_days_before.max(0) as u64);
            if warm.panic.is_some() {
                push(Violation { kind: "panic".into(), signature: "panic in look-up".into(), detail: format!("earlier run (today {}) look-ups {:?} panicked: {:?}", wtoday, dg.warm_lookups, warm.panic) }, &mut violations);
                continue;
            }
            let obs = run_fx_process(FxPlan {
                data: boc.clone(),
                today,
                published_today: pt,
                force: false,
                cache,
                mem_in: warm.mem_out.clone(),
                lookups: dg.lookups.iter().map(|d| pd(d)).collect(),
                app_rows: None,
                app_files: 1,
                app_console: false,
                app_legacy_date: false,
                app_date_fmt: 0,
                net_faults: dg.net_faults.clone(),
                server_today: None,
                clock_tz: sc.clock_tz,
                now_shift: 0,
                session: None,
                fs_faults: FsFaultSpec::default(),
                knobs: Knobs::default(),
                hash_seed: sc.hash_seed ^ 0x12,
            });
            st.bump("sim.processes");
            st.bump("probe.degraded_network_runs");
            if dg.net_faults.iter().all(|f| f.is_none()) {
                st.bump("probe.runs_over_an_earlier_runs_cache_with_a_healthy_network");
            }
            if obs.requests.is_empty() && !dg.lookups.is_empty() {
                st.bump("probe.run_over_an_earlier_runs_cache_served_without_download");
            }
            let ctx = format!("earlier run on {} (published_today {}) looked up {:?} and left a {} cache; today {} (published_today {}) one loader looks up {:?} with network faults {:?}", wtoday, dg.warm_published_today, dg.warm_lookups, if dg.csv_cache { "CSV" } else { "in-memory" }, today, pt, dg.lookups, dg.net_faults);
            if let Some(p) = &obs.panic {
                push(Violation { kind: "panic".into(), signature: "panic in look-up over a cache with a failing network".into(), detail: format!("{}: {}", ctx, p) }, &mut violations);
                continue;
            }
            for r in &obs.requests {
                if let Some(f) = &r.fault {
                    st.bump(&format!("fault.{}", f));
                }
            }
            for lo in &obs.lookups {
                let expect = ref_lookup(&boc, today, pt, lo.date);
                // (a failed download may also fail the run's later look-ups: an implementation need not retry)
                let faulted = obs.requests[..lo.req_to.min(obs.requests.len())].iter().any(|q| q.fault.is_some());
                digest = fnv64_add(digest, show_answer(&lo.result).as_bytes());
                match (&expect, &lo.result) {
                    (RefAnswer::Rate { date, .. }, Ok((gd, gr))) => {
                        if gd != date {
                            let sig = if *gd > lo.date { "rate of a later day" } else if (lo.date - *gd).whole_days() > 7 { "rate older than 7 days" } else { "wrong day's rate" };
                            push(Violation { kind: "wrong_rate_date".into(), signature: format!("{} (failing network over an earlier run's cache)", sig), detail: format!("{}\nlook-up of {}: reference model says rate of {}, code returned rate of {} = {}", ctx, lo.date, date, gd, gr) }, &mut violations);
                        } else if !rate_matches(&boc, *date, gr, false) {
                            push(Violation { kind: "wrong_rate_value".into(), signature: "wrong value (failing network over an earlier run's cache)".into(), detail: format!("{}\nlook-up of {}: rate of {} published as v={}, code returned {}", ctx, lo.date, date, boc.published[date], gr) }, &mut violations);
                        } else if faulted {
                            st.bump("probe.degraded_right_answer_despite_fault");
                        }
                    }
                    (RefAnswer::NoRate, Ok((gd, gr))) => {
                        push(Violation { kind: "rate_where_none_exists".into(), signature: "rate where none exists (failing network over an earlier run's cache)".into(), detail: format!("{}\nlook-up of {}: reference model says no usable rate, code returned rate of {} = {}", ctx, lo.date, gd, gr) }, &mut violations);
                    }
                    (RefAnswer::NoRate, Err(_)) => {}
                    (RefAnswer::Rate { date, depth }, Err(msg)) => {
                        if faulted {
                            st.bump("probe.degraded_lookup_failed_on_fault");
                        } else {
                            push(Violation { kind: "error_where_rate_exists".into(), signature: "error although a rate exists and no network fault had fired in the run".into(), detail: format!("{}\nlook-up of {}: reference model says rate of {} (look-back {}), code failed: {}", ctx, lo.date, date, depth, msg.lines().next().unwrap_or("")) }, &mut violations);
                        }
                    }
                }
            }
        }

        // Application path: CSV rows -> load_tx_rates -> Tx::try_from -> deltas.
        for (run_i, rows) in sc.app_runs.iter().enumerate() {
            let n_files = sc.app_run_files.get(run_i).copied().unwrap_or(1).max(1);
            if n_files > 1 {
                st.bump("probe.app_rows_over_several_files");
            }
            if rows.iter().any(|r| r.sell) {
                st.bump("probe.app_sell_rows");
            }
            if sc.date_fmt != 0 {
                st.bump("probe.app_runs_with_date_fmt_option");
            }
            if rows.iter().any(|r| r.zero_price || (r.commission && r.zero_commission)) {
                st.bump("probe.app_rows_with_an_explicit_zero_amount");
            }
            if rows.iter().any(|r| r.roc && r.fx.is_none() && r.cur.as_ref().map(|c| c.trim().to_uppercase() == "USD").unwrap_or(false)) {
                st.bump("probe.app_return_of_capital_in_usd_without_rate");
            }
            crate::interpose::with_world(|w| w.fs.disk = crate::simfs::Disk::new());
            let obs = run_fx_process(FxPlan {
                data: boc.clone(),
                today,
                published_today: pt,
                force: false,
                cache: CacheKind::Mem,
                mem_in: MemState::new(),
                lookups: vec![],
                app_rows: Some(rows.clone()),
                app_files: n_files,
                app_console: false,
                app_legacy_date: sc.legacy_date_col,
                app_date_fmt: sc.date_fmt,
                net_faults: vec![],
                server_today: None,
                clock_tz: sc.clock_tz,
                now_shift: 0,
                session: None,
                fs_faults: FsFaultSpec::default(),
                knobs: Knobs::default(),
                hash_seed: sc.hash_seed,
            });
            st.bump("sim.processes");
            st.bump("probe.app_runs");
            let mut expected: Vec<Result<((String, Decimal), (String, Decimal)), String>> = vec![];
            for row in rows {
                let trade = pd(&row.trade);
                let tx_side = expected_side(&boc, today, pt, trade, &row.cur, &row.fx);
                let c_side = expected_side(&boc, today, pt, trade, &row.ccur, &row.cfx);
                let e = match (tx_side, c_side) {
                    (Err(e), _) | (_, Err(e)) => Err(e),
                    (Ok(t), Ok(c)) => {
                        let t = t.unwrap_or(("CAD".into(), Decimal::ONE));
                        let c = c.unwrap_or(t.clone());
                        Ok((t, c))
                    }
                };
                match (&row.cur, &row.fx) {
                    (Some(c), None) if c.trim().to_uppercase() == "USD" => st.bump("probe.app_usd_without_rate"),
                    (Some(c), Some(_)) if c.trim().to_uppercase() == "USD" => st.bump("probe.app_usd_explicit_rate"),
                    (Some(c), Some(_)) if c.trim().to_uppercase() == "CAD" => st.bump("probe.app_cad_with_rate"),
                    (Some(c), _) if c.trim().to_uppercase() != "CAD" => st.bump("probe.app_other_currency"),
                    _ => st.bump("probe.app_cad"),
                }
                if row.ccur.is_some() {
                    st.bump("probe.app_separate_commission_currency");
                }
                expected.push(e);
            }
            let any_err = expected.iter().any(|e| e.is_err());
            // The same rows through the console application: the tables on stdout must show the
            // CAD amount computed with the expected rate; a rejected run must say why on stderr.
            {
                crate::interpose::with_world(|w| w.fs.disk = crate::simfs::Disk::new());
                let con = run_fx_process(FxPlan {
                    data: boc.clone(),
                    today,
                    published_today: pt,
                    force: false,
                    cache: CacheKind::Mem,
                    mem_in: MemState::new(),
                    lookups: vec![],
                    app_rows: Some(rows.clone()),
                    app_files: n_files,
                    app_console: true,
                    app_legacy_date: sc.legacy_date_col,
                    app_date_fmt: sc.date_fmt,
                    net_faults: vec![],
                    server_today: None,
                    clock_tz: sc.clock_tz,
                    now_shift: 0,
                    session: None,
                    fs_faults: FsFaultSpec::default(),
                    knobs: Knobs::default(),
                    hash_seed: sc.hash_seed,
                });
                st.bump("sim.processes");
                st.bump("probe.console_runs");
                let out_txt = String::from_utf8_lossy(&con.stdout).to_string();
                let err_txt = String::from_utf8_lossy(&con.stderr).to_string();
                digest = fnv64_add(digest, out_txt.as_bytes());
                let con_ok = matches!(&con.app, Some(Ok(_)));
                if con.panic.is_some() {
                    push(Violation { kind: "panic".into(), signature: "panic in console application".into(), detail: format!("rows:\n{}{:?}", app_csv(rows), con.panic) }, &mut violations);
                } else if any_err {
                    // (the explanation may be on either stream)
                    let explained = err_txt.lines().chain(out_txt.lines()).any(|l| !l.trim().is_empty() && !l.starts_with("Fetching"));
                    if con_ok || out_txt.contains("Transactions for") {
                        if !(malformed_cfg && con_ok) {
                            push(Violation { kind: "console_accepts_invalid".into(), signature: "console run prints tables although a needed rate does not exist".into(), detail: format!("today {} published_today {} rows:\n{}expected {:?}\nstdout starts: {:?}", today, pt, app_csv(rows), expected, out_txt.lines().next()) }, &mut violations);
                        }
                    } else if !explained {
                        push(Violation { kind: "empty_error".into(), signature: "console run fails without an explanation on stderr".into(), detail: format!("rows:\n{}stderr: {:?}", app_csv(rows), err_txt) }, &mut violations);
                    } else {
                        st.bump("probe.console_run_rejected_with_message");
                    }
                } else if con_ok {
                    st.bump("probe.console_run_printed_tables");
                    for (i, row) in rows.iter().enumerate() {
                        let is_usd_lookup = row.cur.as_ref().map(|c| c.trim().to_uppercase() == "USD").unwrap_or(false) && row.fx.is_none();
                        if !is_usd_lookup || malformed_cfg || row.roc || row.zero_price {
                            continue;
                        }
                        if let Ok(((_, tr), _)) = &expected[i] {
                            // 1000 shares at 10.00 USD: the Amount cell is $<10000 x rate> to the cent
                            let amount = (Decimal::from(if row.sell { 10 } else { 10000 }) * *tr).round_dp_with_strategy(2, rust_decimal::RoundingStrategy::MidpointAwayFromZero);
                            // the figure itself, whatever the currency symbol, its place or a thousands separator
                            let cell = format!("{:.2}", amount);
                            let flat = out_txt.replace([',', '\'', '\u{a0}', '\u{202f}'], "");
                            if !flat.contains(&cell) {
                                push(Violation { kind: "console_wrong_amount".into(), signature: "Amount cell of a USD row not computed with the expected rate".into(), detail: format!("today {} published_today {} rows:\n{}row {}: expected an Amount cell {} (10000.00 USD x {}), not found on stdout", today, pt, app_csv(rows), i, cell, tr) }, &mut violations);
                            }
                            // Amt/Share: 10.00 USD x rate
                            let per_share = (Decimal::from(10) * *tr).round_dp_with_strategy(2, rust_decimal::RoundingStrategy::MidpointAwayFromZero);
                            let cell2 = format!("{:.2}", per_share);
                            if !flat.contains(&cell2) {
                                push(Violation { kind: "console_wrong_amount".into(), signature: "Amt/Share cell of a USD row not computed with the expected rate".into(), detail: format!("today {} published_today {} rows:\n{}row {}: expected an Amt/Share cell {} (10.00 USD x {}), not found on stdout", today, pt, app_csv(rows), i, cell2, tr) }, &mut violations);
                            }
                            // Commission: 1.00 in the commission currency x its rate
                            if row.commission && !row.zero_commission {
                                if let Ok((_, (_, cr))) = &expected[i] {
                                    let comm = (*cr).round_dp_with_strategy(2, rust_decimal::RoundingStrategy::MidpointAwayFromZero);
                                    let cell3 = format!("{:.2}", comm);
                                    if !flat.contains(&cell3) {
                                        push(Violation { kind: "console_wrong_amount".into(), signature: "Commission cell not computed with the expected rate".into(), detail: format!("today {} published_today {} rows:\n{}row {}: expected a Commission cell {} (1.00 x {}), not found on stdout", today, pt, app_csv(rows), i, cell3, cr) }, &mut violations);
                                    }
                                }
                            }
                        }
                    }
                } else if !malformed_cfg {
                    push(Violation { kind: "app_error_where_rates_exist".into(), signature: "console application rejects rows the property accepts".into(), detail: format!("today {} published_today {} rows:\n{}stderr: {}", today, pt, app_csv(rows), err_txt.lines().last().unwrap_or("")) }, &mut violations);
                }
            }
            let got = match (&obs.panic, &obs.app) {
                (Some(p), _) => Err(format!("PANIC: {}", p)),
                (None, Some(r)) => r.clone(),
                (None, None) => Err("no app result".into()),
            };
            digest = fnv64_add(digest, format!("{:?}", got).as_bytes());
            if obs.panic.is_some() {
                push(Violation { kind: "panic".into(), signature: "panic in application path".into(), detail: format!("rows {:?}: {:?}", rows, got) }, &mut violations);
                continue;
            }
            let mal_on_path = malformed_cfg;
            match (&got, any_err) {
                (Err(msg), true) => {
                    if msg.trim().is_empty() {
                        push(Violation { kind: "empty_error".into(), signature: "error without explanation".into(), detail: "application path failed with an empty message".into() }, &mut violations);
                    }
                    st.bump("probe.app_run_rejected");
                }
                (Err(msg), false) => {
                    if !mal_on_path {
                        push(Violation { kind: "app_error_where_rates_exist".into(), signature: "application rejects rows the property accepts".into(), detail: format!("today {} published_today {} rows:\n{}expected rates {:?}\ncode failed: {}", today, pt, app_csv(rows), expected, msg.lines().next().unwrap_or("")) }, &mut violations);
                    }
                }
                (Ok(_), true) => {
                    let bad: Vec<String> = expected.iter().enumerate().filter(|(_, e)| e.is_err()).map(|(i, e)| format!("row {}: {}", i, e.as_ref().unwrap_err())).collect();
                    push(Violation { kind: "app_accepts_invalid".into(), signature: format!("application accepts a row that must stop the run ({})", bad[0].split(": ").nth(1).unwrap_or("")), detail: format!("today {} published_today {} rows:\n{}must fail because {:?}, but the run succeeded", today, pt, app_csv(rows), bad) }, &mut violations);
                }
                (Ok(rates), false) => {
                    st.bump("probe.app_run_accepted");
                    for rr in rates {
                        if rr.row >= expected.len() {
                            continue;
                        }
                        let ((tc, tr), (cc, cr)) = expected[rr.row].clone().unwrap();
                        let row = &rows[rr.row];
                        let trade = pd(&row.trade);
                        let check = |what: &str, exp_c: &str, exp_r: &Decimal, got_c: &str, got_r: &Decimal, explicit: bool| -> Option<Violation> {
                            if exp_c != got_c {
                                return Some(Violation { kind: "app_wrong_currency".into(), signature: format!("{} currency", what), detail: format!("row {} {}: expected currency {}, got {}", rr.row, what, exp_c, got_c) });
                            }
                            let ok = if exp_c == "USD" && !explicit {
                                // looked-up: compare through the publication (handles the inversion tolerance)
                                match ref_lookup(&boc, today, pt, trade) {
                                    RefAnswer::Rate { date, .. } => rate_matches(&boc, date, got_r, malformed_cfg),
                                    RefAnswer::NoRate => false,
                                }
                            } else {
                                exp_r == got_r
                            };
                            if ok {
                                None
                            } else {
                                let sig = if explicit { format!("{} explicit rate not used", what) } else if exp_c == "USD" { format!("{} looked-up rate wrong", what) } else { format!("{} rate wrong", what) };
                                Some(Violation { kind: "app_wrong_rate".into(), signature: sig, detail: format!("today {} published_today {} rows:\n{}row {} {}: expected {} {}, got {} {}", today, pt, app_csv(rows), rr.row, what, exp_c, exp_r, got_c, got_r) })
                            }
                        };
                        if let Some(v) = check("tx", &tc, &tr, &rr.tx_currency, &rr.tx_rate, row.fx.is_some()) {
                            push(v, &mut violations);
                        }
                        let c_explicit = if row.ccur.is_some() { row.cfx.is_some() } else { row.fx.is_some() };
                        if let Some(v) = check("commission", &cc, &cr, &rr.comm_currency, &rr.comm_rate, c_explicit) {
                            push(v, &mut violations);
                        }
                    }
                    if rates.iter().filter(|r| r.row < rows.len()).count() != rows.len() {
                        push(Violation { kind: "app_row_count".into(), signature: "rows lost".into(), detail: format!("{} rows in, {} deltas out", rows.len(), rates.len()) }, &mut violations);
                    }
                }
            }
        }
        // (only with observations listed in ascending order: with any other order the unchanged code
        // leaves holes among its placeholders, which costs the next run a download - and the real
        // process has no network)
        if sc.e2e && !malformed_cfg && sc.format.obs_order == 0 {
            if let Some(v) = self.e2e_lane(sc, &boc, today, pt, st, &mut digest) {
                push(v, &mut violations);
            }
        }
        ExecOut { violations, digest, nontrivial }
    }

    fn shrink(&self, sc: &Sc) -> Vec<Sc> {
        let mut c = vec![];
        if !sc.app_runs.is_empty() {
            let mut s = sc.clone();
            s.app_runs.clear();
            c.push(s);
        }
        if !sc.lookups.is_empty() && !sc.app_runs.is_empty() {
            let mut s = sc.clone();
            s.lookups.clear();
            c.push(s);
        }
        if !sc.degraded.is_empty() {
            let mut s = sc.clone();
            s.degraded.clear();
            c.push(s);
            for i in 0..sc.degraded.len() {
                let mut s = sc.clone();
                s.degraded = vec![sc.degraded[i].clone()];
                s.lookups.clear();
                s.app_runs.clear();
                s.sequences.clear();
                c.push(s);
                for j in 0..sc.degraded[i].lookups.len() {
                    if sc.degraded[i].lookups.len() > 1 {
                        let mut s = sc.clone();
                        s.degraded[i].lookups.remove(j);
                        c.push(s);
                    }
                }
                for j in 0..sc.degraded[i].warm_lookups.len() {
                    if sc.degraded[i].warm_lookups.len() > 1 {
                        let mut s = sc.clone();
                        s.degraded[i].warm_lookups.remove(j);
                        c.push(s);
                    }
                }
                for j in 0..sc.degraded[i].net_faults.len() {
                    if sc.degraded[i].net_faults[j].is_some() {
                        let mut s = sc.clone();
                        s.degraded[i].net_faults[j] = None;
                        c.push(s);
                    }
                }
            }
        }
        if sc.format.obs_order != 0 {
            let mut s = sc.clone();
            s.format.obs_order = 0;
            c.push(s);
        }
        if !sc.sequences.is_empty() {
            let mut s = sc.clone();
            s.sequences.clear();
            c.push(s);
            for i in 0..sc.sequences.len() {
                let mut s = sc.clone();
                s.sequences = vec![sc.sequences[i].clone()];
                s.lookups.clear();
                s.app_runs.clear();
                c.push(s);
                for j in 0..sc.sequences[i].len() {
                    if sc.sequences[i].len() > 1 {
                        let mut s = sc.clone();
                        s.sequences[i].remove(j);
                        c.push(s);
                    }
                }
            }
        }
        for i in 0..sc.lookups.len() {
            let mut s = sc.clone();
            s.lookups = vec![sc.lookups[i].clone()];
            s.app_runs.clear();
            s.sequences.clear();
            c.push(s);
        }
        for i in 0..sc.app_runs.len() {
            let mut s = sc.clone();
            s.app_runs = vec![sc.app_runs[i].clone()];
            c.push(s);
            for j in 0..sc.app_runs[i].len() {
                let mut s = sc.clone();
                s.app_runs[i].remove(j);
                if s.app_runs[i].is_empty() {
                    s.app_runs.remove(i);
                }
                c.push(s);
            }
        }
        for i in 0..sc.lookups.len() {
            let mut s = sc.clone();
            s.lookups.remove(i);
            c.push(s);
        }
        for i in 0..sc.malformed.len() {
            let mut s = sc.clone();
            s.malformed.remove(i);
            c.push(s);
        }
        for i in 0..sc.cal.gaps.len() {
            let mut s = sc.clone();
            s.cal.gaps.remove(i);
            c.push(s);
        }
        if sc.cal.holidays.len() > 4 {
            let mut s = sc.clone();
            s.cal.holidays.truncate(sc.cal.holidays.len() / 2);
            c.push(s);
            let mut s = sc.clone();
            s.cal.holidays.drain(..sc.cal.holidays.len() / 2);
            c.push(s);
        }
        for i in 0..sc.cal.holidays.len().min(40) {
            let mut s = sc.clone();
            s.cal.holidays.remove(i);
            c.push(s);
        }
        if sc.format != JsonFormat::default() {
            let mut s = sc.clone();
            s.format = JsonFormat::default();
            c.push(s);
        }
        if sc.legacy_date_col {
            let mut s = sc.clone();
            s.legacy_date_col = false;
            c.push(s);
        }
        if sc.date_fmt != 0 {
            let mut s = sc.clone();
            s.date_fmt = 0;
            c.push(s);
        }
        if sc.clock_tz.is_some() {
            let mut s = sc.clone();
            s.clock_tz = None;
            c.push(s);
        }
        if sc.e2e {
            let mut s = sc.clone();
            s.e2e = false;
            c.push(s);
        }
        if sc.app_run_files.iter().any(|n| *n > 1) {
            let mut s = sc.clone();
            s.app_run_files.clear();
            c.push(s);
        }
        for (i, run) in sc.app_runs.iter().enumerate() {
            for (j, row) in run.iter().enumerate() {
                if row.commission {
                    let mut s = sc.clone();
                    s.app_runs[i][j].commission = false;
                    s.app_runs[i][j].ccur = None;
                    s.app_runs[i][j].cfx = None;
                    c.push(s);
                }
            }
        }
        c
    }

    fn sample(&self, sc: &Sc) -> Value {
        json!({"calendar": sc.cal, "today": sc.today, "published_today": sc.published_today, "malformed": sc.malformed, "lookups": sc.lookups, "shared_loader_sequences": sc.sequences, "date_fmt_of_application_runs": DATE_FMTS[sc.date_fmt as usize % 4], "degraded_network_runs": sc.degraded.len(), "observation_order": sc.format.obs_order,
               "app_runs": sc.app_runs.iter().map(|r| app_csv(r)).collect::<Vec<_>>() })
    }
    fn hang_or_death_is_violation(&self) -> bool {
        true
    }
    fn level(&self) -> &'static str {
        "exploration"
    }
    fn rule(&self) -> String {
        "Per simulation one seeded publication calendar over 2-4 years (weekends, fixed+random holidays, 0-3 gaps of 3-11 days placed at random / across a year end / in early January; some spans straddle the 2016/2017 noon->daily seam; every published value unique with >=5 decimals), a simulated today, a published-today flag, 4-14 look-up dates biased to today-9..today+2, gap ends +-, Jan 1-8 / Dec 24-31, the seam, plus uniform; each look-up runs the real RateLoader/JsonRemoteRateLoader in a fresh simulated process with an empty cache against SimBoC; 1-2 sequences of 2-5 nearby dates (steps of +-1..4 or +-7/8 days) are looked up by ONE loader in one process (rows of a CSV share a loader), each answer still compared with the model; plus 1-3 application runs (CSV rows with USD/CAD/other currency, with/without explicit rate, separate commission currency) through run_acb_app_to_delta_models and through run_acb_app_to_console (the Amount cell of every USD row on the captured stdout must be 10000 x the expected rate to the cent; a rejected run must explain itself on stderr and print no tables). One fifth of simulations damage 1-4 observations (obs_malformed). One third add 1-2 degraded-network runs: an earlier process (1-370 days before, healthy network, CSV or in-memory cache) leaves its cache, today's process looks 1-4 dates up by one loader while every other request meets a network fault (error / HTML body / truncated JSON / empty body; a third of these runs meet a healthy network instead: a plain run over an earlier run's cache); every Ok must be the model's answer, an Err is accepted only once a fault has fired in that run. The order of the observations in the server's response is a format knob (ascending, descending, a few listed late, a few listed twice, a few of the neighbouring years listed as well). Application runs include return-of-capital rows and, in a third of the simulations, another date format with the matching --date-fmt. One simulation in twelve also runs the real acb binary (clap incl. --date-fmt, main, home-directory look-up, real file system) over a home directory prepared by a simulated run of the same code that looked the needed dates up, and checks exit status and Amount figures. In a third of the simulations the processes learn 'today' from the simulated system clock and a per-process TZ (5/8/12 h west, 1/9/13 h east of UTC; local time 01:00-23:00) through the real today_local() instead of the library's test override. Oracle: reference model (rate of the date if in the snapshot; else error if date >= today; else first present of d-1..d-7; else error), exact for noon values, |rate*v-1|<1e-9 for daily. evaluations = simulations; distinct_nontrivial = distinct simulations with at least one look-up that needed a look-back or had no usable rate.".to_string()
    }
    fn state_measure(&self) -> String {
        "distinct (look-back depth 0..7|none, crosses year, series, relation of date to today, malformed config) tuples".to_string()
    }
    fn assumptions(&self) -> Vec<String> {
        vec![
            "SimBoC serves, per request, every observation published before the run's today (and today's iff published_today): the proviso of C12/C13; a stale or revised server is never generated".to_string(),
            "noon series (IEXE0101) has data up to 2016-12-31, daily (FXCADUSD) from 2017-01-01; a request for the wrong series of a year returns no observations".to_string(),
            "with damaged observations (obs_malformed) a damaged observation counts as not published, and an implementation that refuses the whole look-up instead is also accepted; wrong or zero rates and panics never are".to_string(),
            "error message texts are never matched, only that one exists".to_string(),
        ]
    }
    fn real_components(&self) -> Vec<&'static str> {
        vec!["RateLoader (get_effective_usd_cad_rate, look-back, fill_in_unknown_day_rates)", "JsonRemoteRateLoader + parse_rates_json", "InMemoryRatesCache", "CsvRatesCache over SimFs (degraded-network runs)", "parse_tx_csv, load_tx_rates, Tx::try_from, CurrencyAndExchangeRate", "run_acb_app_to_delta_models", "json, rust_decimal, time crates"]
    }
    fn stub_components(&self) -> Vec<&'static str> {
        vec!["HTTP transport (SimBoC behind the HttpRequester trait)", "clock (interposed clock_gettime + TZ through the real today_local in a third of the simulations; set_todays_date_for_test otherwise)", "entropy", "process boundary (thread)", "async runtime (no-op-waker executor)"]
    }
    fn required_probes(&self, _tier: Tier) -> Vec<&'static str> {
        vec![
            "probe.shared_loader_sequences",
            "probe.lookback_depth_0",
            "probe.lookback_depth_1",
            "probe.lookback_depth_3",
            "probe.lookback_depth_7",
            "probe.lookback_exhausted_8_days",
            "probe.lookback_crosses_year",
            "probe.lookback_crosses_noon_daily_seam",
            "probe.date_today_published",
            "probe.date_today_unpublished",
            "probe.date_future",
            "probe.app_usd_without_rate",
            "probe.app_usd_explicit_rate",
            "probe.app_cad_with_rate",
            "probe.app_other_currency",
            "probe.app_separate_commission_currency",
            "probe.app_run_accepted",
            "probe.app_run_rejected",
            "probe.console_run_printed_tables",
            "probe.app_rows_over_several_files",
            "probe.app_sell_rows",
            "probe.app_runs_with_date_fmt_option",
            "probe.app_rows_with_an_explicit_zero_amount",
            "probe.e2e_rows_run_by_the_real_binary_over_a_prepared_cache",
            "probe.calendar_around_par_noon_below_1_daily_above_1",
            "probe.date_in_a_year_without_any_publication",
            "probe.today_from_system_clock_west_of_utc",
            "probe.today_from_system_clock_east_of_utc",
            "probe.app_return_of_capital_in_usd_without_rate",
            "probe.console_run_rejected_with_message",
            "fault.obs_malformed_on_lookup_path",
            "probe.degraded_network_runs",
            "probe.degraded_lookup_failed_on_fault",
            "probe.runs_over_an_earlier_runs_cache_with_a_healthy_network",
            "probe.run_over_an_earlier_runs_cache_served_without_download",
            "probe.observations_listed_descending",
            "probe.observations_listed_late",
            "probe.observations_listed_twice",
            "probe.observations_outside_the_requested_range_listed",
        ]
    }
}

impl C12 {
    /// The real binary over a pre-populated cache (no look-up may need the network).
    fn e2e_lane(&self, sc: &Sc, boc: &Arc<BocData>, today: time::Date, pt: bool, st: &mut Stats, digest: &mut u64) -> Option<Violation> {
        // the first application run every row of which has an answer
        let rows = sc.app_runs.iter().find(|rows| {
            rows.iter().all(|row| {
                let trade = pd(&row.trade);
                expected_side(boc, today, pt, trade, &row.cur, &row.fx).is_ok() && expected_side(boc, today, pt, trade, &row.ccur, &row.cfx).is_ok()
            }) && rows.iter().any(|row| row.fx.is_none() && row.cur.as_ref().map(|c| c.trim().to_uppercase() == "USD").unwrap_or(false))
        })?;
        if let Err(e) = crate::c09::e2e_seam_check() {
            st.harness_error(e);
            return None;
        }
        // Every date the rows need, per the model. The cache is prepared by the code under test itself:
        // a simulated process (healthy SimBoC, same day) looks those dates up over an empty simulated
        // home directory, and whatever files it leaves there - in whatever layout and format this
        // implementation uses - are copied into the real process's $HOME.
        let mut needed: std::collections::BTreeSet<time::Date> = std::collections::BTreeSet::new();
        for row in rows {
            let usd_lookup = |cur: &Option<String>, fx: &Option<String>| fx.is_none() && cur.as_ref().map(|c| c.trim().to_uppercase() == "USD").unwrap_or(false);
            if usd_lookup(&row.cur, &row.fx) || usd_lookup(&row.ccur, &row.cfx) {
                needed.insert(pd(&row.trade));
            }
        }
        let years: std::collections::BTreeSet<i32> = needed.iter().flat_map(|d| ref_touched(boc, today, pt, *d)).map(|d| d.year()).collect();
        crate::interpose::with_world(|w| w.fs.disk = crate::simfs::Disk::new());
        let prep = run_fx_process(FxPlan {
            data: boc.clone(),
            today,
            published_today: pt,
            force: false,
            cache: CacheKind::Csv,
            mem_in: MemState::new(),
            lookups: needed.iter().copied().collect(),
            app_rows: None,
            app_files: 1,
            app_console: false,
            app_legacy_date: false,
            app_date_fmt: 0,
            net_faults: vec![],
            server_today: None,
            clock_tz: None,
            now_shift: 0,
            session: None,
            fs_faults: FsFaultSpec::default(),
            knobs: Knobs::default(),
            hash_seed: sc.hash_seed ^ 0x21,
        });
        st.bump("sim.processes");
        if prep.panic.is_some() || prep.lookups.iter().any(|l| l.result.is_err()) {
            return None; // (the simulated lanes judge that; nothing to prepare a cache from)
        }
        let prepared = crate::interpose::with_world(|w| w.fs.disk.all_files());
        let dir = crate::c09::e2e_dir();
        let root = format!("{}-c12", crate::c09::e2e_scratch());
        let _ = std::fs::remove_dir_all(&root);
        if std::fs::create_dir_all(format!("{}/home", root)).is_err() {
            st.harness_error(format!("e2e scratch {}", root));
            return None;
        }
        for (p, data) in &prepared {
            if let Some(rel) = p.strip_prefix("/simfs/home/") {
                let dest = format!("{}/home/{}", root, rel);
                if let Some(parent) = std::path::Path::new(&dest).parent() {
                    let _ = std::fs::create_dir_all(parent);
                }
                let _ = std::fs::write(&dest, data);
            }
        }
        let _ = std::fs::write(format!("{}/tx.csv", root), app_csv_fmt(rows, 0, sc.legacy_date_col, sc.date_fmt));
        let mut args: Vec<String> = vec!["tx.csv".to_string()];
        if sc.date_fmt != 0 {
            args.push("--date-fmt".to_string());
            args.push(DATE_FMTS[sc.date_fmt as usize % 4].to_string());
        }
        let now = (today - ymd(1970, 1, 1)).whole_days() * 86_400 + 43_200;
        let mut cmd = std::process::Command::new(format!("{}/debug/acb", dir));
        cmd.args(&args)
            .current_dir(&root)
            .env_clear()
            .env("HOME", format!("{}/home", root))
            .env("TZ", "UTC")
            .env("LD_PRELOAD", format!("{}/libsimseed.so", dir))
            .env("ACBSIM_SEED", sc.hash_seed.to_string())
            .env("ACBSIM_NOW", now.to_string())
            .env("ACBSIM_PID", "4321")
            .stdin(std::process::Stdio::null());
        crate::c09::own_memory_layout(&mut cmd, sc.hash_seed);
        let o = cmd.output();
        if std::env::var("VERIF_KEEP_E2E").is_err() {
            let _ = std::fs::remove_dir_all(&root);
        }
        let o = match o {
            Ok(o) => o,
            Err(e) => {
                st.harness_error(format!("cannot start the real acb binary: {}", e));
                return None;
            }
        };
        st.bump("sim.real_os_processes");
        st.bump("probe.e2e_rows_run_by_the_real_binary_over_a_prepared_cache");
        let out_txt = String::from_utf8_lossy(&o.stdout).to_string();
        let err_txt = String::from_utf8_lossy(&o.stderr).to_string();
        *digest = fnv64_add(*digest, out_txt.as_bytes());
        let prepared_list: Vec<String> = prepared.iter().map(|(p, d)| format!("{} ({} bytes)", p, d.len())).collect();
        let ctx = format!("prepared files: {:?}\nreal acb binary (end-to-end lane), today {} published_today {}, home directory prepared by a simulated run of the same code that looked the dates up (years {:?}), args {:?}, rows:\n{}", prepared_list, today, pt, years, args, app_csv_fmt(rows, 0, sc.legacy_date_col, sc.date_fmt));
        if o.status.code() != Some(0) {
            return Some(Violation { kind: "app_error_where_rates_exist".into(), signature: "the real binary rejects rows the property accepts (every needed date is in its cache)".into(), detail: format!("{}\nexit {:?}, stderr: {}", ctx, o.status.code(), err_txt.lines().last().unwrap_or("")) });
        }
        let flat = out_txt.replace([',', '\'', '\u{a0}', '\u{202f}'], "");
        for row in rows {
            if !(row.fx.is_none() && row.cur.as_ref().map(|c| c.trim().to_uppercase() == "USD").unwrap_or(false)) || row.roc || row.zero_price {
                continue;
            }
            if let Ok(Some((_, tr))) = expected_side(boc, today, pt, pd(&row.trade), &row.cur, &row.fx) {
                let amount = (Decimal::from(if row.sell { 10 } else { 10000 }) * tr).round_dp_with_strategy(2, rust_decimal::RoundingStrategy::MidpointAwayFromZero);
                let cell = format!("{:.2}", amount);
                if !flat.contains(&cell) {
                    return Some(Violation { kind: "console_wrong_amount".into(), signature: "Amount cell of a USD row not computed with the expected rate (real binary)".into(), detail: format!("{}\nexpected an Amount {} (x {}), not found on stdout", ctx, cell, tr) });
                }
            }
        }
        None
    }
}

pub fn warm_up() {
    let sc = generate(0xC12);
    let mut st = Stats::default();
    let _ = C12.execute(&sc, &mut st);
}
