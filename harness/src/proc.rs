//! One simulated process = one fresh OS thread whose entropy, clock, console and
//! /simfs file system belong to the simulator. Its heap state dies with it;
//! only what it left in SimFs (or what the caller carries over explicitly)
//! survives to the next simulated process.

use crate::interpose::{set_in_sim, with_world};
use crate::prng::Rng;
use crate::simfs::{FsFaults, Knobs, Op};
use std::collections::BTreeMap;
use std::io::Write;
use std::panic::{catch_unwind, AssertUnwindSafe};
use time::Date;

pub const SIM_PROCESS_TIMEOUT: std::time::Duration = std::time::Duration::from_secs(30);

#[derive(Clone, Debug)]
pub struct ProcEnv {
    /// Decides the keys of every std HashMap/HashSet in the process.
    pub hash_seed: u64,
    /// The simulated local date ("today").
    pub today: Date,
    pub knobs: Knobs,
    pub fs_faults: FsFaults,
    /// Some(h): the process learns "today" the way a deployed one does - from the (simulated)
    /// system clock and the TZ environment variable, h hours west of UTC (negative = east) - instead
    /// of through the library's test override. The simulated instant is 01:00..23:00 LOCAL time on
    /// `today`, so the UTC date is often the day after (west) or before (east).
    pub clock_tz_hours_west: Option<i8>,
    /// Seconds added to the process's instant (histories keep the clock monotone across the runs of one day).
    pub now_shift: i64,
    /// Some(id): this "run" happens inside a long-lived process (the web application: one page, many
    /// recalculations) - runs with the same id execute one after the other on the SAME thread, so
    /// statics, thread-locals and whatever else outlives a run inside a process is shared by them.
    /// A run with another id (or None) ends the session: its thread exits.
    pub session: Option<u64>,
}

impl ProcEnv {
    pub fn new(hash_seed: u64, today: Date) -> ProcEnv {
        ProcEnv { hash_seed, today, knobs: Knobs::default(), fs_faults: FsFaults::default(), clock_tz_hours_west: None, now_shift: 0, session: None }
    }

    /// Seconds since local midnight of `today` at the process's instant.
    pub fn now_unix_secs_into_local_day(&self) -> i64 {
        let local_midnight = unix_noon(self.today) - 43_200 + self.clock_tz_hours_west.unwrap_or(0) as i64 * 3600;
        self.now_unix() - local_midnight
    }

    /// The simulated instant (unix seconds) at which this process runs.
    pub fn now_unix(&self) -> i64 {
        self.now_shift
            + match self.clock_tz_hours_west {
                None => unix_noon(self.today) + (self.hash_seed % 21_600) as i64 - 10_800,
                // local noon +- 11 h, expressed in UTC seconds
                Some(h) => unix_noon(self.today) + h as i64 * 3600 + (self.hash_seed % 79_200) as i64 - 39_600,
            }
    }
}

pub struct ProcOut<T> {
    /// Err = the process panicked (message).
    pub result: Result<T, String>,
    pub stdout: Vec<u8>,
    pub stderr: Vec<u8>,
    pub journal: Vec<Op>,
    pub entropy_calls: u64,
    pub clock_reads: u64,
    pub fs_ops: u64,
    pub short_writes: u64,
    pub short_reads: u64,
    pub eintrs: u64,
    pub fs_faults_fired: BTreeMap<&'static str, u64>,
    pub unmodelled: Vec<String>,
}

fn unix_noon(d: Date) -> i64 {
    let epoch = Date::from_calendar_date(1970, time::Month::January, 1).unwrap();
    (d - epoch).whole_days() * 86_400 + 12 * 3600
}

/// Deterministic panic report: the default hook prints the OS thread id, which
/// differs between two executions of the same simulation.
pub fn install_panic_hook() {
    std::panic::set_hook(Box::new(|info| {
        let loc = info.location().map(|l| format!("{}:{}:{}", l.file(), l.line(), l.column())).unwrap_or_default();
        let msg = if let Some(s) = info.payload().downcast_ref::<&str>() {
            s.to_string()
        } else if let Some(s) = info.payload().downcast_ref::<String>() {
            s.clone()
        } else {
            "Box<dyn Any>".to_string()
        };
        eprintln!("thread panicked at {}:\n{}", loc, msg);
    }));
}

pub fn run_process<T, F>(env: &ProcEnv, f: F) -> ProcOut<T>
where
    T: Send + 'static,
    F: FnOnce() -> T + Send + 'static,
{
    let continuing = match env.session {
        Some(id) if id != u64::MAX => SESSION.with(|c| c.borrow().as_ref().map(|s| s.id == id).unwrap_or(false)),
        _ => false,
    };
    with_world(|w| {
        w.out.clear();
        w.err.clear();
        w.entropy = Rng::new(env.hash_seed);
        w.entropy_calls = 0;
        w.clock_reads = 0;
        // Same simulated day, but every simulated process sees its own time of day and pid.
        w.now_unix = env.now_unix();
        w.pid = 10_000 + (env.hash_seed % 50_000) as i32;
        // (inside a long-lived process the monotonic clock goes on; it never jumps back)
        w.mono_ns = if continuing { SESSION_MONO.with(|c| c.get()) + (1 + env.hash_seed % 7_200) * 1_000_000_000 } else { (3_600 + env.hash_seed % 86_400) * 1_000_000_000 };
        w.real_mono_start_ns = crate::interpose::real_monotonic_ns();
        w.latency_seed = env.hash_seed;
        w.requests_timed = 0;
        w.unmodelled.clear();
        w.fs.begin_process(env.knobs.clone(), env.fs_faults.clone());
        w.fs.disk.clock = w.now_unix;
    });
    let today = env.today;
    let use_clock = env.clock_tz_hours_west.is_some();
    if let Some(h) = env.clock_tz_hours_west {
        // POSIX TZ: "SIM5" = 5 hours west of UTC, "SIM-9" = 9 hours east. No simulated process is
        // running while the variable changes (they run one at a time, this thread starts them).
        std::env::set_var("TZ", format!("SIM{}", h));
        // (libc caches the zone for localtime_r: an implementation that goes through libc must see the change)
        extern "C" {
            fn tzset();
        }
        unsafe { tzset() };
    }
    crate::interpose::mark_driver_thread();
    crate::interpose::set_process_running(true);
    let body = move || {
        set_in_sim(true);
        if !use_clock {
            acb::util::date::set_todays_date_for_test(today);
        }
        let r = catch_unwind(AssertUnwindSafe(f));
        let _ = std::io::stdout().flush();
        let _ = std::io::stderr().flush();
        set_in_sim(false);
        r.map_err(|e| {
            if let Some(s) = e.downcast_ref::<&str>() {
                s.to_string()
            } else if let Some(s) = e.downcast_ref::<String>() {
                s.clone()
            } else {
                "panic (non-string payload)".to_string()
            }
        })
    };
    let result: Result<T, String> = match env.session {
        None | Some(u64::MAX) => {
            // (u64::MAX: a detached one-off process - a dry run - that leaves a running session alone)
            if env.session.is_none() {
                end_session();
            }
            let (done_tx, done_rx) = std::sync::mpsc::channel::<()>();
            let handle = std::thread::Builder::new()
                .name("simproc".into())
                .stack_size(16 << 20)
                .spawn(move || {
                    let r = body();
                    let _ = done_tx.send(());
                    r
                })
                .expect("spawn simulated process");
            // A simulated process takes ~0.1 ms. One that has not finished after SIM_PROCESS_TIMEOUT
            // of real time is hung (the thread cannot be killed, so the OS process reports and exits).
            if done_rx.recv_timeout(SIM_PROCESS_TIMEOUT).is_err() && !handle.is_finished() {
                crate::interpose::set_process_running(false);
                crate::on_simulated_process_hang();
            }
            match handle.join() {
                Ok(r) => r,
                Err(_) => Err("simulated process thread died".to_string()),
            }
        }
        Some(id) => {
            let (res_tx, res_rx) = std::sync::mpsc::channel::<Result<T, String>>();
            let job: Job = Box::new(move || {
                let _ = res_tx.send(body());
            });
            session_submit(id, job);
            match res_rx.recv_timeout(SIM_PROCESS_TIMEOUT) {
                Ok(r) => r,
                Err(_) => {
                    crate::interpose::set_process_running(false);
                    crate::on_simulated_process_hang();
                }
            }
        }
    };
    crate::interpose::set_process_running(false);
    if matches!(env.session, Some(id) if id != u64::MAX) {
        let real = crate::interpose::real_monotonic_ns();
        let m = with_world(|w| w.mono_ns + real.saturating_sub(w.real_mono_start_ns));
        SESSION_MONO.with(|c| c.set(m));
    }
    with_world(|w| {
        w.fs.end_process();
        ProcOut {
            result,
            stdout: std::mem::take(&mut w.out),
            stderr: std::mem::take(&mut w.err),
            journal: std::mem::take(&mut w.fs.journal),
            entropy_calls: w.entropy_calls,
            clock_reads: w.clock_reads,
            fs_ops: w.fs.ops_total,
            short_writes: w.fs.short_writes,
            short_reads: w.fs.short_reads,
            eintrs: w.fs.eintrs,
            fs_faults_fired: w.fs.faults_fired.clone(),
            unmodelled: std::mem::take(&mut w.unmodelled),
        }
    })
}

type Job = Box<dyn FnOnce() + Send + 'static>;

struct Session {
    id: u64,
    tx: std::sync::mpsc::Sender<Job>,
    handle: std::thread::JoinHandle<()>,
}

thread_local! {
    /// The driver thread's current long-lived simulated process, if any.
    static SESSION: std::cell::RefCell<Option<Session>> = const { std::cell::RefCell::new(None) };
    /// where that process's monotonic clock stood when its latest run ended
    static SESSION_MONO: std::cell::Cell<u64> = const { std::cell::Cell::new(0) };
}

/// The long-lived simulated process (if any) exits.
pub fn end_session() {
    if let Some(s) = SESSION.with(|c| c.borrow_mut().take()) {
        drop(s.tx);
        let _ = s.handle.join();
    }
}

fn session_submit(id: u64, job: Job) {
    let same = SESSION.with(|c| c.borrow().as_ref().map(|s| s.id == id).unwrap_or(false));
    if !same {
        end_session();
        let (tx, rx) = std::sync::mpsc::channel::<Job>();
        let handle = std::thread::Builder::new()
            .name("simproc-session".into())
            .stack_size(16 << 20)
            .spawn(move || {
                while let Ok(job) = rx.recv() {
                    job();
                }
            })
            .expect("spawn simulated long-lived process");
        SESSION.with(|c| *c.borrow_mut() = Some(Session { id, tx, handle }));
    }
    SESSION.with(|c| {
        if let Some(s) = c.borrow().as_ref() {
            let _ = s.tx.send(job);
        }
    });
}

/// The library's async fns normally never wait on anything in simulation (the transport answers
/// immediately). Should the code under test wait for a timer or for a task on another thread, the
/// executor parks until woken (or 10 ms), for at most 25 s - a complete single-future executor.
pub fn block_on<F: std::future::Future>(fut: F) -> F::Output {
    use std::sync::Arc;
    use std::task::{Context, Poll, Wake, Waker};
    struct Unpark(std::thread::Thread);
    impl Wake for Unpark {
        fn wake(self: Arc<Self>) {
            self.0.unpark();
        }
    }
    let waker = Waker::from(Arc::new(Unpark(std::thread::current())));
    let mut cx = Context::from_waker(&waker);
    let mut fut = std::pin::pin!(fut);
    let started = std::time::Instant::now();
    loop {
        if let Poll::Ready(v) = fut.as_mut().poll(&mut cx) {
            return v;
        }
        if started.elapsed() > std::time::Duration::from_secs(25) {
            panic!("simulated executor: future never became ready");
        }
        std::thread::park_timeout(std::time::Duration::from_millis(10));
    }
}
