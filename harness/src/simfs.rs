//! SimFs — the simulated disk. In-memory inodes + names, an fd table, and a
//! journal of every durable-state-changing operation issued by the current
//! simulated process. A crash state is "initial disk + a prefix of the journal,
//! the last write possibly cut at any byte" (DESIGN §2.3).

use std::collections::BTreeMap;

pub const ROOT: &str = "/simfs";
pub const FAKE_FD_BASE: i32 = 1_000_000;

#[derive(Clone, Debug, PartialEq, Eq)]
pub struct Inode {
    pub is_dir: bool,
    pub mode: u32,
    pub data: Vec<u8>,
    pub nlink: u32,
    /// modification time (unix seconds on the simulated clock; not part of the disk digest)
    pub mtime: i64,
    /// Some(target): a symbolic link (never a directory, no data)
    pub link: Option<String>,
}

#[derive(Clone, Debug, PartialEq, Eq)]
pub struct Disk {
    pub inodes: BTreeMap<u64, Inode>,
    pub names: BTreeMap<String, u64>,
    /// the simulated clock, stamped on files as they are created or modified
    pub clock: i64,
    pub next_ino: u64,
}

#[derive(Clone, Debug, PartialEq, Eq)]
pub enum Op {
    Mkdir { path: String, mode: u32 },
    Create { path: String, mode: u32 },
    Truncate { ino: u64, len: u64 },
    Write { ino: u64, off: u64, data: Vec<u8> },
    Rename { from: String, to: String },
    Link { from: String, to: String },
    Symlink { path: String, target: String },
    Unlink { path: String },
    Rmdir { path: String },
    Chmod { ino: u64, mode: u32 },
    Fsync { ino: u64 },
    Close { ino: u64 },
}

impl Op {
    pub fn kind(&self) -> &'static str {
        match self {
            Op::Mkdir { .. } => "mkdir",
            Op::Create { .. } => "create",
            Op::Truncate { .. } => "truncate",
            Op::Write { .. } => "write",
            Op::Rename { .. } => "rename",
            Op::Link { .. } => "link",
            Op::Symlink { .. } => "symlink",
            Op::Unlink { .. } => "unlink",
            Op::Rmdir { .. } => "rmdir",
            Op::Chmod { .. } => "chmod",
            Op::Fsync { .. } => "fsync",
            Op::Close { .. } => "close",
        }
    }
    pub fn describe(&self) -> String {
        match self {
            Op::Mkdir { path, mode } => format!("mkdir {} {:o}", path, mode),
            Op::Create { path, mode } => format!("create {} {:o}", path, mode),
            Op::Truncate { ino, len } => format!("truncate ino={} len={}", ino, len),
            Op::Write { ino, off, data } => format!("write ino={} off={} len={}", ino, off, data.len()),
            Op::Rename { from, to } => format!("rename {} -> {}", from, to),
            Op::Link { from, to } => format!("link {} -> {}", from, to),
            Op::Symlink { path, target } => format!("symlink {} -> {}", path, target),
            Op::Unlink { path } => format!("unlink {}", path),
            Op::Rmdir { path } => format!("rmdir {}", path),
            Op::Chmod { ino, mode } => format!("chmod ino={} {:o}", ino, mode),
            Op::Fsync { ino } => format!("fsync ino={}", ino),
            Op::Close { ino } => format!("close ino={}", ino),
        }
    }
}

pub fn normalise(path: &str) -> Option<String> {
    if !(path == ROOT || path.starts_with("/simfs/")) {
        return None;
    }
    let mut parts: Vec<&str> = Vec::new();
    for c in path.split('/') {
        match c {
            "" | "." => {}
            ".." => {
                parts.pop();
            }
            c => parts.push(c),
        }
    }
    if parts.first() != Some(&"simfs") {
        return None;
    }
    Some(format!("/{}", parts.join("/")))
}

fn parent_of(path: &str) -> &str {
    match path.rfind('/') {
        Some(0) | None => "/",
        Some(i) => &path[..i],
    }
}

impl Default for Disk {
    fn default() -> Self {
        Disk::new()
    }
}

impl Disk {
    pub fn new() -> Disk {
        let mut d = Disk { inodes: BTreeMap::new(), names: BTreeMap::new(), clock: 0, next_ino: 2 };
        d.inodes.insert(1, Inode { is_dir: true, mode: 0o755, data: vec![], nlink: 2, mtime: 0, link: None });
        d.names.insert(ROOT.to_string(), 1);
        d
    }

    pub fn lookup(&self, path: &str) -> Option<u64> {
        self.names.get(path).copied()
    }

    /// Content of the regular file `path` names (symbolic links are followed, as open() would).
    pub fn file(&self, path: &str) -> Option<&[u8]> {
        let real = self.walk(path, true).ok()?;
        let ino = self.lookup(&real)?;
        let i = self.inodes.get(&ino)?;
        if i.is_dir || i.link.is_some() {
            None
        } else {
            Some(&i.data)
        }
    }

    pub fn is_symlink(&self, path: &str) -> bool {
        self.lookup(path).and_then(|i| self.inodes.get(&i)).map(|i| i.link.is_some()).unwrap_or(false)
    }

    /// Bootstrap helper: make `path` a symbolic link to `target` (parents are created, an existing name is replaced).
    pub fn put_symlink(&mut self, path: &str, target: &str) {
        let parent = parent_of(path).to_string();
        self.mkdir_p(&parent);
        self.remove_file_quietly(path);
        let ino = self.next_ino;
        self.next_ino += 1;
        self.inodes.insert(ino, Inode { is_dir: false, mode: 0o777, data: vec![], nlink: 1, mtime: 0, link: Some(target.to_string()) });
        self.names.insert(path.to_string(), ino);
    }

    /// Path resolution as the kernel does it: symbolic links in every component but the last are
    /// followed, the last one only with `follow_last`. Returns the path the name stands for (it need
    /// not exist). ELOOP after 40 links; a link that leads out of /simfs resolves to nothing (ENOENT).
    pub fn walk(&self, path: &str, follow_last: bool) -> Result<String, i32> {
        if !self.inodes.values().any(|i| i.link.is_some()) {
            return Ok(path.to_string());
        }
        let mut todo: std::collections::VecDeque<String> = path.split('/').filter(|c| !c.is_empty()).map(|c| c.to_string()).collect();
        let mut cur = String::new();
        let mut hops = 0;
        while let Some(c) = todo.pop_front() {
            if c == "." {
                continue;
            }
            if c == ".." {
                cur = match cur.rfind('/') {
                    Some(i) => cur[..i].to_string(),
                    None => String::new(),
                };
                continue;
            }
            let next = format!("{}/{}", cur, c);
            let is_last = todo.is_empty();
            if !is_last || follow_last {
                if let Some(t) = self.lookup(&next).and_then(|i| self.inodes.get(&i)).and_then(|i| i.link.clone()) {
                    hops += 1;
                    if hops > 40 {
                        return Err(libc::ELOOP);
                    }
                    if t.is_empty() {
                        return Err(libc::ENOENT);
                    }
                    if t.starts_with('/') {
                        cur.clear();
                    }
                    for comp in t.split('/').filter(|c| !c.is_empty()).rev() {
                        todo.push_front(comp.to_string());
                    }
                    continue;
                }
            }
            cur = next;
        }
        if cur == ROOT || cur.starts_with("/simfs/") {
            Ok(cur)
        } else {
            Err(libc::ENOENT)
        }
    }

    /// All regular files under `dir` (non-recursive names relative to dir), sorted.
    pub fn list_files(&self, dir: &str) -> Vec<(String, Vec<u8>)> {
        // what a process that opens `dir`/<name> would read: links are followed (the directory's own, and entries')
        let dir = self.walk(dir, true).unwrap_or_else(|_| dir.to_string());
        let prefix = format!("{}/", dir);
        let mut out = vec![];
        for (p, ino) in &self.names {
            if let Some(rest) = p.strip_prefix(&prefix) {
                let i = &self.inodes[ino];
                if i.link.is_some() {
                    if let Some(data) = self.file(p) {
                        out.push((rest.to_string(), data.to_vec()));
                    }
                } else if !i.is_dir {
                    out.push((rest.to_string(), i.data.clone()));
                }
            }
        }
        out
    }

    /// Bootstrap helper: make `path` a directory (mkdir -p).
    pub fn put_dir(&mut self, path: &str) {
        let mut cur = String::new();
        for part in path.split('/').filter(|p| !p.is_empty()) {
            cur.push('/');
            cur.push_str(part);
            if self.lookup(&cur).is_none() {
                let ino = self.next_ino;
                self.next_ino += 1;
                self.inodes.insert(ino, Inode { is_dir: true, mode: 0o755, data: vec![], nlink: 2, mtime: 0, link: None });
                self.names.insert(cur.clone(), ino);
            }
        }
    }

    /// Every regular file on the disk: (path, content), in path order.
    pub fn all_files(&self) -> Vec<(String, Vec<u8>)> {
        self.names.iter().filter(|(_, ino)| !self.inodes[*ino].is_dir && self.inodes[*ino].link.is_none()).map(|(p, ino)| (p.clone(), self.inodes[ino].data.clone())).collect()
    }

    /// Remove a file by path (bootstrap helper, not journalled).
    pub fn remove_file_quietly(&mut self, path: &str) {
        if let Some(ino) = self.names.remove(path) {
            self.drop_link(ino);
        }
    }

    /// Direct children of a directory: (name, is_dir, inode), in name order.
    pub fn children(&self, dir: &str) -> Vec<(String, bool, u64)> {
        let prefix = if dir == "/" { "/".to_string() } else { format!("{}/", dir) };
        let mut out = vec![];
        for (p, ino) in &self.names {
            if let Some(rest) = p.strip_prefix(&prefix) {
                if !rest.is_empty() && !rest.contains('/') {
                    out.push((rest.to_string(), self.inodes[ino].is_dir, *ino));
                }
            }
        }
        out
    }

    pub fn put_file(&mut self, path: &str, data: &[u8]) {
        // Test/bootstrap helper: mkdir -p parent, then create/replace the file (through links, as open() would).
        let path = &self.walk(path, true).unwrap_or_else(|_| path.to_string());
        let parent = parent_of(path).to_string();
        self.mkdir_p(&parent);
        if let Some(ino) = self.lookup(path) {
            self.inodes.get_mut(&ino).unwrap().data = data.to_vec();
        } else {
            let ino = self.next_ino;
            self.next_ino += 1;
            self.inodes.insert(ino, Inode { is_dir: false, mode: 0o644, data: data.to_vec(), nlink: 1, mtime: 0, link: None });
            self.names.insert(path.to_string(), ino);
        }
    }

    pub fn mkdir_p(&mut self, path: &str) {
        if path.len() < ROOT.len() || self.names.contains_key(path) {
            return;
        }
        let parent = parent_of(path).to_string();
        self.mkdir_p(&parent);
        let ino = self.next_ino;
        self.next_ino += 1;
        self.inodes.insert(ino, Inode { is_dir: true, mode: 0o700, data: vec![], nlink: 2, mtime: 0, link: None });
        self.names.insert(path.to_string(), ino);
    }

    fn drop_link(&mut self, ino: u64) {
        // Inodes are kept even at nlink 0 (an open descriptor may still refer
        // to them; they are unreachable by name, which is all that matters
        // for what a later process can see).
        if let Some(i) = self.inodes.get_mut(&ino) {
            i.nlink = i.nlink.saturating_sub(1);
        }
    }

    /// Apply a journal operation. Operations were validated when issued, so
    /// application is infallible; a missing object is ignored.
    pub fn apply(&mut self, op: &Op) {
        match op {
            Op::Mkdir { path, mode } => {
                let ino = self.next_ino;
                self.next_ino += 1;
                self.inodes.insert(ino, Inode { is_dir: true, mode: *mode, data: vec![], nlink: 2, mtime: 0, link: None });
                self.names.insert(path.clone(), ino);
            }
            Op::Create { path, mode } => {
                let ino = self.next_ino;
                self.next_ino += 1;
                self.inodes.insert(ino, Inode { is_dir: false, mode: *mode, data: vec![], nlink: 1, mtime: self.clock, link: None });
                self.names.insert(path.clone(), ino);
            }
            Op::Truncate { ino, len } => {
                let clock = self.clock;
                if let Some(i) = self.inodes.get_mut(ino) {
                    i.data.resize(*len as usize, 0);
                    i.mtime = clock;
                }
            }
            Op::Write { ino, off, data } => {
                self.apply_write(*ino, *off, data);
                let clock = self.clock;
                if let Some(i) = self.inodes.get_mut(ino) {
                    i.mtime = clock;
                }
            }
            Op::Rename { from, to } => {
                if let Some(ino) = self.names.remove(from) {
                    let is_dir = self.inodes.get(&ino).map(|i| i.is_dir).unwrap_or(false);
                    if let Some(old) = self.names.insert(to.clone(), ino) {
                        if old != ino {
                            self.drop_link(old);
                        }
                    }
                    if is_dir {
                        // Move children.
                        let prefix = format!("{}/", from);
                        let moved: Vec<(String, u64)> = self
                            .names
                            .iter()
                            .filter(|(p, _)| p.starts_with(&prefix))
                            .map(|(p, i)| (p.clone(), *i))
                            .collect();
                        for (p, i) in moved {
                            self.names.remove(&p);
                            self.names.insert(format!("{}/{}", to, &p[prefix.len()..]), i);
                        }
                    }
                }
            }
            Op::Link { from, to } => {
                if let Some(ino) = self.lookup(from) {
                    self.names.insert(to.clone(), ino);
                    if let Some(i) = self.inodes.get_mut(&ino) {
                        i.nlink += 1;
                    }
                }
            }
            Op::Symlink { path, target } => {
                let ino = self.next_ino;
                self.next_ino += 1;
                self.inodes.insert(ino, Inode { is_dir: false, mode: 0o777, data: vec![], nlink: 1, mtime: self.clock, link: Some(target.clone()) });
                self.names.insert(path.clone(), ino);
            }
            Op::Unlink { path } | Op::Rmdir { path } => {
                if let Some(ino) = self.names.remove(path) {
                    self.drop_link(ino);
                }
            }
            Op::Chmod { ino, mode } => {
                if let Some(i) = self.inodes.get_mut(ino) {
                    i.mode = *mode;
                }
            }
            Op::Fsync { .. } | Op::Close { .. } => {}
        }
    }

    pub fn apply_write(&mut self, ino: u64, off: u64, data: &[u8]) {
        if data.is_empty() {
            return;
        }
        if let Some(i) = self.inodes.get_mut(&ino) {
            let end = off as usize + data.len();
            if i.data.len() < end {
                i.data.resize(end, 0);
            }
            i.data[off as usize..end].copy_from_slice(data);
        }
    }

    /// The disk that survives a crash after `k` complete journal operations
    /// plus, if operation `k` is a write, its first `cut` bytes.
    pub fn crash_state(initial: &Disk, journal: &[Op], k: usize, cut: usize) -> Disk {
        let mut d = initial.clone();
        let k = k.min(journal.len());
        for op in &journal[..k] {
            d.apply(op);
        }
        if cut > 0 {
            if let Some(Op::Write { ino, off, data }) = journal.get(k) {
                let n = cut.min(data.len());
                d.apply_write(*ino, *off, &data[..n]);
            }
        }
        d
    }

    /// Power-loss state: every namespace operation of journal[..k] is durable, but
    /// of the data written to `ino` since its last fsync (within journal[..k]) only
    /// the first `keep` bytes reached the disk ("rename persisted before the data").
    pub fn power_loss_state(initial: &Disk, journal: &[Op], k: usize, ino: u64, keep: usize) -> Disk {
        let k = k.min(journal.len());
        let last_sync = journal[..k].iter().rposition(|o| matches!(o, Op::Fsync { ino: i } if *i == ino)).map(|i| i + 1).unwrap_or(0);
        let mut d = initial.clone();
        let mut left = keep;
        for (i, op) in journal[..k].iter().enumerate() {
            match op {
                Op::Write { ino: wi, off, data } if *wi == ino && i >= last_sync => {
                    let n = left.min(data.len());
                    d.apply_write(*wi, *off, &data[..n]);
                    left -= n;
                }
                _ => d.apply(op),
            }
        }
        d
    }

    /// Bytes written to `ino` in journal[..k] after its last fsync there.
    pub fn unsynced_bytes(journal: &[Op], k: usize, ino: u64) -> usize {
        let k = k.min(journal.len());
        let last_sync = journal[..k].iter().rposition(|o| matches!(o, Op::Fsync { ino: i } if *i == ino)).map(|i| i + 1).unwrap_or(0);
        journal[last_sync..k].iter().map(|o| if let Op::Write { ino: wi, data, .. } = o { if *wi == ino { data.len() } else { 0 } } else { 0 }).sum()
    }

    /// Digest of the name → (type, content) mapping (what a later process can observe).
    pub fn digest(&self) -> u64 {
        let mut h = crate::prng::fnv64(b"disk");
        for (p, ino) in &self.names {
            h = crate::prng::fnv64_add(h, p.as_bytes());
            let i = &self.inodes[ino];
            h = crate::prng::fnv64_add(h, &[i.is_dir as u8]);
            if let Some(t) = &i.link {
                h = crate::prng::fnv64_add(h, b"->");
                h = crate::prng::fnv64_add(h, t.as_bytes());
            }
            h = crate::prng::fnv64_add(h, &(i.data.len() as u64).to_le_bytes());
            h = crate::prng::fnv64_add(h, &i.data);
        }
        h
    }
}

#[derive(Clone, Debug)]
pub struct Ofd {
    pub ino: u64,
    pub off: u64,
    pub flags: i32,
    pub refs: u32,
}

#[derive(Clone, Debug, Default, PartialEq, Eq)]
pub struct FsFaults {
    /// Every open() that would create or write fails with this errno.
    pub open_write_errno: Option<i32>,
    /// mkdir fails with this errno.
    pub mkdir_errno: Option<i32>,
    /// The disk is full after this many more bytes are written by this process.
    pub enospc_after_bytes: Option<u64>,
    pub rename_errno: Option<i32>,
    pub fsync_errno: Option<i32>,
    /// With fsync_errno: the failing fsync reports a failed write-back - of the data written to the
    /// file since its last successful fsync only this many bytes are on the medium (and that is
    /// what every later read sees).
    pub fsync_error_keeps: Option<u64>,
    /// Every open() for reading an existing file fails with this errno.
    pub open_read_errno: Option<i32>,
    /// Every read() of a simulated file fails with this errno.
    pub read_errno: Option<i32>,
}

#[derive(Clone, Debug)]
pub struct Knobs {
    /// write() accepts at most this many bytes per call (legal short write).
    pub max_write: usize,
    /// read() returns at most this many bytes per call (legal short read).
    pub max_read: usize,
    /// Every n-th read()/write() call on a simulated file is interrupted by a signal first
    /// (returns EINTR, nothing transferred; legal, the caller retries). 0 = never.
    pub eintr_every: u32,
}

impl Default for Knobs {
    fn default() -> Self {
        Knobs { max_write: usize::MAX, max_read: usize::MAX, eintr_every: 0 }
    }
}

#[derive(Clone, Debug)]
pub struct Stat {
    pub ino: u64,
    pub mode: u32, // with S_IFMT bits
    pub size: u64,
    pub nlink: u32,
    pub mtime: i64,
}

pub struct SimFs {
    pub disk: Disk,
    fds: BTreeMap<i32, u64>,
    ofds: BTreeMap<u64, Ofd>,
    next_fd: i32,
    next_ofd: u64,
    pub journal: Vec<Op>,
    pub knobs: Knobs,
    pub faults: FsFaults,
    pub faults_fired: BTreeMap<&'static str, u64>,
    pub bytes_written: u64,
    pub ops_total: u64,
    pub short_writes: u64,
    pub short_reads: u64,
    pub eintrs: u64,
    rw_calls: u64,
}

type R<T> = Result<T, i32>;

impl SimFs {
    pub fn new() -> SimFs {
        SimFs {
            disk: Disk::new(),
            fds: BTreeMap::new(),
            ofds: BTreeMap::new(),
            next_fd: FAKE_FD_BASE,
            next_ofd: 1,
            journal: vec![],
            knobs: Knobs::default(),
            faults: FsFaults::default(),
            faults_fired: BTreeMap::new(),
            bytes_written: 0,
            ops_total: 0,
            short_writes: 0,
            short_reads: 0,
            eintrs: 0,
            rw_calls: 0,
        }
    }

    /// A new simulated process starts: no open descriptors, empty journal, no faults.
    pub fn begin_process(&mut self, knobs: Knobs, faults: FsFaults) {
        self.fds.clear();
        self.ofds.clear();
        self.next_fd = FAKE_FD_BASE;
        self.next_ofd = 1;
        self.journal.clear();
        self.knobs = knobs;
        self.faults = faults;
        self.faults_fired.clear();
        self.bytes_written = 0;
        self.ops_total = 0;
        self.short_writes = 0;
        self.short_reads = 0;
        self.eintrs = 0;
        self.rw_calls = 0;
    }

    /// Process exit: descriptors vanish (no durable effect).
    pub fn end_process(&mut self) {
        self.fds.clear();
        self.ofds.clear();
    }

    /// Legal-but-unusual: a signal interrupts every n-th read()/write() before any byte moves.
    fn maybe_eintr(&mut self) -> R<()> {
        if self.knobs.eintr_every > 0 {
            self.rw_calls += 1;
            if self.rw_calls % self.knobs.eintr_every as u64 == 0 {
                self.eintrs += 1;
                return Err(libc::EINTR);
            }
        }
        Ok(())
    }

    fn fire(&mut self, kind: &'static str) {
        *self.faults_fired.entry(kind).or_insert(0) += 1;
    }

    fn record(&mut self, op: Op) {
        self.disk.apply(&op);
        self.journal.push(op);
    }

    pub fn is_fake_fd(&self, fd: i32) -> bool {
        fd >= FAKE_FD_BASE
    }

    /// Path of the directory (or file) an open descriptor refers to.
    pub fn path_of_fd(&self, fd: i32) -> R<String> {
        let ofd = self.ofd_of(fd)?;
        let ino = self.ofds[&ofd].ino;
        self.disk.names.iter().find(|(_, i)| **i == ino).map(|(p, _)| p.clone()).ok_or(libc::ENOENT)
    }

    fn ofd_of(&self, fd: i32) -> R<u64> {
        self.fds.get(&fd).copied().ok_or(libc::EBADF)
    }

    /// errno of a path that does not resolve: ENOTDIR if some ancestor exists and is not a
    /// directory (as the kernel reports it), else ENOENT.
    fn missing_errno(&self, path: &str) -> i32 {
        let mut p = parent_of(path);
        loop {
            if let Some(ino) = self.disk.lookup(p) {
                return if self.disk.inodes[&ino].is_dir { libc::ENOENT } else { libc::ENOTDIR };
            }
            let q = parent_of(p);
            if q == p || p.is_empty() {
                return libc::ENOENT;
            }
            p = q;
        }
    }

    fn resolve(&self, path: &str) -> R<u64> {
        match self.disk.lookup(path) {
            Some(ino) => Ok(ino),
            None => Err(self.missing_errno(path)),
        }
    }

    fn check_parent(&self, path: &str) -> R<()> {
        let parent = parent_of(path);
        match self.disk.lookup(parent) {
            None => Err(self.missing_errno(parent)),
            Some(ino) => {
                if self.disk.inodes[&ino].is_dir {
                    Ok(())
                } else {
                    Err(libc::ENOTDIR)
                }
            }
        }
    }

    pub fn open(&mut self, path: &str, flags: i32, mode: u32) -> R<i32> {
        self.ops_total += 1;
        let acc = flags & libc::O_ACCMODE;
        let wants_write = acc == libc::O_WRONLY || acc == libc::O_RDWR;
        let creat = flags & libc::O_CREAT != 0;
        let nofollow = flags & libc::O_NOFOLLOW != 0 || (creat && flags & libc::O_EXCL != 0);
        let path = &self.disk.walk(path, !nofollow)?;
        if path != ROOT {
            self.check_parent(path)?;
        }
        if wants_write || creat {
            if let Some(e) = self.faults.open_write_errno {
                self.fire("open_write_error");
                return Err(e);
            }
        }
        let ino = match self.disk.lookup(path) {
            Some(ino) => {
                if creat && flags & libc::O_EXCL != 0 {
                    return Err(libc::EEXIST);
                }
                if self.disk.inodes[&ino].link.is_some() {
                    // only reached with O_NOFOLLOW
                    return Err(if flags & libc::O_DIRECTORY != 0 { libc::ENOTDIR } else { libc::ELOOP });
                }
                let is_dir = self.disk.inodes[&ino].is_dir;
                if !is_dir && !wants_write {
                    if let Some(e) = self.faults.open_read_errno {
                        self.fire("open_read_error");
                        return Err(e);
                    }
                }
                if is_dir && wants_write {
                    return Err(libc::EISDIR);
                }
                if !is_dir && flags & libc::O_DIRECTORY != 0 {
                    return Err(libc::ENOTDIR);
                }
                if !is_dir && wants_write && flags & libc::O_TRUNC != 0 {
                    // O_TRUNC is journalled even on an empty file: it is a step boundary.
                    self.record(Op::Truncate { ino, len: 0 });
                }
                ino
            }
            None => {
                if !creat {
                    return Err(libc::ENOENT);
                }
                let ino = self.disk.next_ino;
                self.record(Op::Create { path: path.to_string(), mode: mode & 0o7777 });
                ino
            }
        };
        let ofd = self.next_ofd;
        self.next_ofd += 1;
        self.ofds.insert(ofd, Ofd { ino, off: 0, flags, refs: 1 });
        let fd = self.next_fd;
        self.next_fd += 1;
        self.fds.insert(fd, ofd);
        Ok(fd)
    }

    pub fn dup(&mut self, fd: i32) -> R<i32> {
        let ofd = self.ofd_of(fd)?;
        self.ofds.get_mut(&ofd).unwrap().refs += 1;
        let nfd = self.next_fd;
        self.next_fd += 1;
        self.fds.insert(nfd, ofd);
        Ok(nfd)
    }

    pub fn close(&mut self, fd: i32) -> R<()> {
        self.ops_total += 1;
        let ofd = self.fds.remove(&fd).ok_or(libc::EBADF)?;
        let o = self.ofds.get_mut(&ofd).unwrap();
        o.refs -= 1;
        if o.refs == 0 {
            let ino = o.ino;
            self.ofds.remove(&ofd);
            self.journal.push(Op::Close { ino });
        }
        Ok(())
    }

    pub fn flags_of(&self, fd: i32) -> R<i32> {
        let ofd = self.ofd_of(fd)?;
        Ok(self.ofds[&ofd].flags)
    }

    pub fn read(&mut self, fd: i32, buf: &mut [u8]) -> R<usize> {
        self.ops_total += 1;
        let ofd = self.ofd_of(fd)?;
        let (ino, off, flags) = {
            let o = &self.ofds[&ofd];
            (o.ino, o.off, o.flags)
        };
        if flags & libc::O_ACCMODE == libc::O_WRONLY {
            return Err(libc::EBADF);
        }
        self.maybe_eintr()?;
        if let Some(e) = self.faults.read_errno {
            self.fire("read_error");
            return Err(e);
        }
        let n = self.pread_ino(ino, off, buf)?;
        self.ofds.get_mut(&ofd).unwrap().off += n as u64;
        Ok(n)
    }

    fn pread_ino(&mut self, ino: u64, off: u64, buf: &mut [u8]) -> R<usize> {
        let inode = self.disk.inodes.get(&ino).ok_or(libc::EBADF)?;
        if inode.is_dir {
            return Err(libc::EISDIR);
        }
        let len = inode.data.len() as u64;
        if off >= len {
            return Ok(0);
        }
        let avail = (len - off) as usize;
        let mut n = buf.len().min(avail);
        if n > self.knobs.max_read {
            n = self.knobs.max_read;
            self.short_reads += 1;
        }
        buf[..n].copy_from_slice(&inode.data[off as usize..off as usize + n]);
        Ok(n)
    }

    pub fn pread(&mut self, fd: i32, off: u64, buf: &mut [u8]) -> R<usize> {
        self.ops_total += 1;
        let ofd = self.ofd_of(fd)?;
        let ino = self.ofds[&ofd].ino;
        self.pread_ino(ino, off, buf)
    }

    fn write_ino(&mut self, ino: u64, off: u64, data: &[u8]) -> R<usize> {
        if data.is_empty() {
            return Ok(0);
        }
        let mut n = data.len();
        if n > self.knobs.max_write {
            n = self.knobs.max_write;
            self.short_writes += 1;
        }
        if let Some(limit) = self.faults.enospc_after_bytes {
            let left = limit.saturating_sub(self.bytes_written);
            if left == 0 {
                self.fire("enospc");
                return Err(libc::ENOSPC);
            }
            if (n as u64) > left {
                n = left as usize;
                self.fire("enospc_short_write");
            }
        }
        self.bytes_written += n as u64;
        self.record(Op::Write { ino, off, data: data[..n].to_vec() });
        Ok(n)
    }

    pub fn write(&mut self, fd: i32, data: &[u8]) -> R<usize> {
        self.ops_total += 1;
        let ofd = self.ofd_of(fd)?;
        let (ino, mut off, flags) = {
            let o = &self.ofds[&ofd];
            (o.ino, o.off, o.flags)
        };
        if flags & libc::O_ACCMODE == libc::O_RDONLY {
            return Err(libc::EBADF);
        }
        self.maybe_eintr()?;
        if flags & libc::O_APPEND != 0 {
            off = self.disk.inodes[&ino].data.len() as u64;
        }
        let n = self.write_ino(ino, off, data)?;
        self.ofds.get_mut(&ofd).unwrap().off = off + n as u64;
        Ok(n)
    }

    pub fn pwrite(&mut self, fd: i32, off: u64, data: &[u8]) -> R<usize> {
        self.ops_total += 1;
        let ofd = self.ofd_of(fd)?;
        let (ino, flags) = {
            let o = &self.ofds[&ofd];
            (o.ino, o.flags)
        };
        if flags & libc::O_ACCMODE == libc::O_RDONLY {
            return Err(libc::EBADF);
        }
        self.write_ino(ino, off, data)
    }

    pub fn lseek(&mut self, fd: i32, off: i64, whence: i32) -> R<u64> {
        let ofd = self.ofd_of(fd)?;
        let (ino, cur) = {
            let o = &self.ofds[&ofd];
            (o.ino, o.off)
        };
        let size = self.disk.inodes[&ino].data.len() as i64;
        let base = match whence {
            libc::SEEK_SET => 0,
            libc::SEEK_CUR => cur as i64,
            libc::SEEK_END => size,
            _ => return Err(libc::EINVAL),
        };
        let n = base + off;
        if n < 0 {
            return Err(libc::EINVAL);
        }
        self.ofds.get_mut(&ofd).unwrap().off = n as u64;
        Ok(n as u64)
    }

    fn stat_ino(&self, ino: u64) -> R<Stat> {
        let i = self.disk.inodes.get(&ino).ok_or(libc::ENOENT)?;
        let ty = if i.is_dir {
            libc::S_IFDIR
        } else if i.link.is_some() {
            libc::S_IFLNK
        } else {
            libc::S_IFREG
        };
        let size = i.link.as_ref().map(|t| t.len() as u64).unwrap_or(i.data.len() as u64);
        Ok(Stat { ino, mode: ty | i.mode, size, nlink: i.nlink, mtime: i.mtime })
    }

    pub fn fstat(&mut self, fd: i32) -> R<Stat> {
        self.ops_total += 1;
        let ofd = self.ofd_of(fd)?;
        self.stat_ino(self.ofds[&ofd].ino)
    }

    pub fn stat(&mut self, path: &str) -> R<Stat> {
        self.stat_opt(path, true)
    }

    pub fn lstat(&mut self, path: &str) -> R<Stat> {
        self.stat_opt(path, false)
    }

    fn stat_opt(&mut self, path: &str, follow: bool) -> R<Stat> {
        self.ops_total += 1;
        let path = &self.disk.walk(path, follow)?;
        match self.disk.lookup(path) {
            Some(ino) => self.stat_ino(ino),
            None => Err(self.missing_errno(path)),
        }
    }

    pub fn symlink(&mut self, target: &str, path: &str) -> R<()> {
        self.ops_total += 1;
        let path = &self.disk.walk(path, false)?;
        if target.is_empty() {
            return Err(libc::ENOENT);
        }
        self.check_parent(path)?;
        if self.disk.lookup(path).is_some() {
            return Err(libc::EEXIST);
        }
        if let Some(e) = self.faults.open_write_errno {
            self.fire("open_write_error");
            return Err(e);
        }
        self.record(Op::Symlink { path: path.to_string(), target: target.to_string() });
        Ok(())
    }

    pub fn readlink(&mut self, path: &str) -> R<String> {
        self.ops_total += 1;
        let path = &self.disk.walk(path, false)?;
        let ino = self.resolve(path)?;
        self.disk.inodes[&ino].link.clone().ok_or(libc::EINVAL)
    }

    /// realpath(3): every link followed, the result must exist.
    pub fn realpath(&mut self, path: &str) -> R<String> {
        self.ops_total += 1;
        let real = self.disk.walk(path, true)?;
        self.resolve(&real)?;
        Ok(real)
    }

    pub fn mkdir(&mut self, path: &str, mode: u32) -> R<()> {
        self.ops_total += 1;
        let path = &self.disk.walk(path, false)?;
        if self.disk.lookup(path).is_some() {
            return Err(libc::EEXIST);
        }
        self.check_parent(path)?;
        if let Some(e) = self.faults.mkdir_errno {
            self.fire("mkdir_error");
            return Err(e);
        }
        self.record(Op::Mkdir { path: path.to_string(), mode: mode & 0o7777 });
        Ok(())
    }

    pub fn rmdir(&mut self, path: &str) -> R<()> {
        self.ops_total += 1;
        let path = &self.disk.walk(path, false)?;
        let ino = self.resolve(path)?;
        if !self.disk.inodes[&ino].is_dir {
            return Err(libc::ENOTDIR);
        }
        let prefix = format!("{}/", path);
        if self.disk.names.keys().any(|p| p.starts_with(&prefix)) {
            return Err(libc::ENOTEMPTY);
        }
        self.record(Op::Rmdir { path: path.to_string() });
        Ok(())
    }

    pub fn unlink(&mut self, path: &str) -> R<()> {
        self.ops_total += 1;
        let path = &self.disk.walk(path, false)?;
        let ino = self.resolve(path)?;
        if self.disk.inodes[&ino].is_dir {
            return Err(libc::EISDIR);
        }
        self.record(Op::Unlink { path: path.to_string() });
        Ok(())
    }

    pub fn rename(&mut self, from: &str, to: &str, noreplace: bool) -> R<()> {
        self.ops_total += 1;
        // the kernel walks both parent paths (first the source's) before it looks the last components up
        let from = &self.disk.walk(from, false)?;
        self.check_parent(from)?;
        let to = &self.disk.walk(to, false)?;
        self.check_parent(to)?;
        let ino = self.resolve(from)?;
        if to.starts_with(&format!("{}/", from)) {
            return Err(libc::EINVAL);
        }
        if from.starts_with(&format!("{}/", to)) {
            return Err(libc::ENOTEMPTY);
        }
        if let Some(e) = self.faults.rename_errno {
            self.fire("rename_error");
            return Err(e);
        }
        if let Some(tino) = self.disk.lookup(to) {
            if noreplace {
                return Err(libc::EEXIST);
            }
            let sdir = self.disk.inodes[&ino].is_dir;
            let tdir = self.disk.inodes[&tino].is_dir;
            if sdir && !tdir {
                return Err(libc::ENOTDIR);
            }
            if !sdir && tdir {
                return Err(libc::EISDIR);
            }
            if tino == ino {
                return Ok(());
            }
            if tdir {
                let prefix = format!("{}/", to);
                if self.disk.names.keys().any(|p| p.starts_with(&prefix)) {
                    return Err(libc::ENOTEMPTY);
                }
            }
        }
        self.record(Op::Rename { from: from.to_string(), to: to.to_string() });
        Ok(())
    }

    pub fn link(&mut self, from: &str, to: &str) -> R<()> {
        self.ops_total += 1;
        let from = &self.disk.walk(from, false)?;
        let ino = self.resolve(from)?;
        let to = &self.disk.walk(to, false)?;
        self.check_parent(to)?;
        if self.disk.lookup(to).is_some() {
            return Err(libc::EEXIST);
        }
        if self.disk.inodes[&ino].is_dir {
            return Err(libc::EPERM);
        }
        self.record(Op::Link { from: from.to_string(), to: to.to_string() });
        Ok(())
    }

    pub fn chmod(&mut self, path: &str, mode: u32) -> R<()> {
        self.ops_total += 1;
        let path = &self.disk.walk(path, true)?;
        let ino = self.resolve(path)?;
        if self.disk.inodes[&ino].mode != mode & 0o7777 {
            self.record(Op::Chmod { ino, mode: mode & 0o7777 });
        }
        Ok(())
    }

    pub fn fchmod(&mut self, fd: i32, mode: u32) -> R<()> {
        self.ops_total += 1;
        let ofd = self.ofd_of(fd)?;
        let ino = self.ofds[&ofd].ino;
        if self.disk.inodes[&ino].mode != mode & 0o7777 {
            self.record(Op::Chmod { ino, mode: mode & 0o7777 });
        }
        Ok(())
    }

    pub fn ftruncate(&mut self, fd: i32, len: u64) -> R<()> {
        self.ops_total += 1;
        let ofd = self.ofd_of(fd)?;
        let (ino, flags) = {
            let o = &self.ofds[&ofd];
            (o.ino, o.flags)
        };
        if flags & libc::O_ACCMODE == libc::O_RDONLY {
            return Err(libc::EINVAL);
        }
        self.record(Op::Truncate { ino, len });
        Ok(())
    }

    pub fn truncate(&mut self, path: &str, len: u64) -> R<()> {
        self.ops_total += 1;
        let path = &self.disk.walk(path, true)?;
        let ino = self.resolve(path)?;
        if self.disk.inodes[&ino].is_dir {
            return Err(libc::EISDIR);
        }
        self.record(Op::Truncate { ino, len });
        Ok(())
    }

    pub fn fsync(&mut self, fd: i32) -> R<()> {
        self.ops_total += 1;
        let ofd = self.ofd_of(fd)?;
        let ino = self.ofds[&ofd].ino;
        if let Some(e) = self.faults.fsync_errno {
            self.fire("fsync_error");
            if let Some(keep) = self.faults.fsync_error_keeps {
                // write-back failed: the un-synced tail of the file never reached the medium
                let last_sync = self.journal.iter().rposition(|o| matches!(o, Op::Fsync { ino: i } if *i == ino)).map(|i| i + 1).unwrap_or(0);
                let unsynced: u64 = self.journal[last_sync..].iter().map(|o| if let Op::Write { ino: wi, data, .. } = o { if *wi == ino { data.len() as u64 } else { 0 } } else { 0 }).sum();
                let len = self.disk.inodes.get(&ino).map(|i| i.data.len() as u64).unwrap_or(0);
                let synced = len.saturating_sub(unsynced);
                let new_len = (synced + keep).min(len);
                if new_len < len {
                    self.fire("fsync_error_lost_unsynced_data");
                    self.record(Op::Truncate { ino, len: new_len });
                }
            }
            return Err(e);
        }
        self.journal.push(Op::Fsync { ino });
        Ok(())
    }

    pub fn access(&mut self, path: &str) -> R<()> {
        self.ops_total += 1;
        let path = &self.disk.walk(path, true)?;
        self.resolve(path).map(|_| ())
    }
}
