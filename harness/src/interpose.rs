//! The seams (DESIGN §2.1): this binary *defines* the libc entry points through
//! which std reaches entropy, the clock, the console and the file system.
//! For threads flagged as "simulated process" the calls are answered by the
//! simulator (World); for every other thread, and for every path / descriptor
//! that is not the simulator's, they are forwarded to the real libc
//! (dlsym(RTLD_NEXT)).  No source hook in /repo is involved.
//!
//! x86-64 SysV only: variadic C functions (open, openat, fcntl) are defined
//! with fixed parameters, which is ABI-compatible on this target.

#![allow(clippy::missing_safety_doc)]

use crate::prng::Rng;
use crate::simfs::{self, SimFs, Stat};
use libc::{c_char, c_int, c_uint, c_void, mode_t, off_t, size_t, ssize_t};
use std::cell::Cell;
use std::ffi::CStr;
use std::sync::atomic::{AtomicUsize, Ordering};
use std::sync::Mutex;

thread_local! {
    static IN_SIM: Cell<bool> = const { Cell::new(false) };
}

pub struct World {
    pub fs: SimFs,
    pub out: Vec<u8>,
    pub err: Vec<u8>,
    pub entropy: Rng,
    pub entropy_calls: u64,
    pub now_unix: i64,
    pub clock_reads: u64,
    /// Simulated part of the process's monotonic clock (nanoseconds): a seed-dependent "time since
    /// boot" plus the latency of the simulated network so far; real elapsed time is added on reading.
    pub mono_ns: u64,
    /// the real monotonic clock when this simulated process started
    pub real_mono_start_ns: u64,
    /// decides the latency of each simulated request of this process (not the entropy stream)
    pub latency_seed: u64,
    pub requests_timed: u64,
    pub pid: i32,
    /// Calls on simulator-owned objects that the model does not implement
    /// (fail-closed: the caller sees an error, the harness sees this list).
    pub unmodelled: Vec<String>,
}

impl World {
    pub fn new() -> World {
        World {
            fs: SimFs::new(),
            out: vec![],
            err: vec![],
            entropy: Rng::new(0),
            entropy_calls: 0,
            now_unix: 0,
            clock_reads: 0,
            mono_ns: 0,
            real_mono_start_ns: 0,
            latency_seed: 0,
            requests_timed: 0,
            pid: 4242,
            unmodelled: vec![],
        }
    }
}

static WORLD: Mutex<Option<World>> = Mutex::new(None);

pub fn with_world<T>(f: impl FnOnce(&mut World) -> T) -> T {
    let mut g = WORLD.lock().unwrap_or_else(|e| e.into_inner());
    if g.is_none() {
        *g = Some(World::new());
    }
    f(g.as_mut().unwrap())
}

pub fn set_in_sim(on: bool) {
    IN_SIM.with(|c| c.set(on));
}

/// While a simulated process runs, threads IT starts (a worker pool, an async runtime's threads)
/// belong to it too: their file, console, clock and entropy calls are the simulated process's.
/// Simulated processes run one at a time and the thread that started one only waits for it.
static PROCESS_RUNNING: std::sync::atomic::AtomicBool = std::sync::atomic::AtomicBool::new(false);

pub fn set_process_running(on: bool) {
    PROCESS_RUNNING.store(on, Ordering::SeqCst);
}

thread_local! {
    /// the harness's own thread that drives simulated processes is never part of one
    static DRIVER_THREAD: Cell<bool> = const { Cell::new(false) };
}

pub fn mark_driver_thread() {
    DRIVER_THREAD.with(|c| c.set(true));
}

#[inline]
fn in_sim() -> bool {
    if IN_SIM.try_with(|c| c.get()).unwrap_or(false) {
        return true;
    }
    PROCESS_RUNNING.load(Ordering::Relaxed) && !DRIVER_THREAD.try_with(|c| c.get()).unwrap_or(true)
}

macro_rules! real {
    ($name:literal, $ty:ty) => {{
        static PTR: AtomicUsize = AtomicUsize::new(0);
        let mut p = PTR.load(Ordering::Relaxed);
        if p == 0 {
            p = libc::dlsym(libc::RTLD_NEXT, concat!($name, "\0").as_ptr() as *const c_char) as usize;
            PTR.store(p, Ordering::Relaxed);
        }
        if p == 0 {
            None
        } else {
            Some(std::mem::transmute::<usize, $ty>(p))
        }
    }};
}

unsafe fn set_errno(e: c_int) {
    *libc::__errno_location() = e;
}

unsafe fn sim_path(p: *const c_char) -> Option<String> {
    if p.is_null() {
        return None;
    }
    let b = CStr::from_ptr(p).to_bytes();
    if b.len() < 6 || &b[..6] != b"/simfs" {
        return None;
    }
    // Paths need not be valid UTF-8 on Linux. SimFs keys are Strings: a path that is not UTF-8 is
    // keyed by its Latin-1 reading (every byte one char) - consistently, so look-ups agree.
    match std::str::from_utf8(b) {
        Ok(s) => simfs::normalise(s),
        Err(_) => simfs::normalise(&b.iter().map(|c| *c as char).collect::<String>()),
    }
}

/// A path relative to a simulated directory descriptor.
unsafe fn sim_path_at(dirfd: c_int, p: *const c_char) -> Option<String> {
    if !fake(dirfd) || p.is_null() {
        return None;
    }
    let b = CStr::from_ptr(p).to_bytes();
    if b.first() == Some(&b'/') {
        return None;
    }
    let rel = std::str::from_utf8(b).ok()?;
    let base = with_world(|w| w.fs.path_of_fd(dirfd)).ok()?;
    simfs::normalise(&format!("{}/{}", base, rel))
}

#[inline]
fn fake(fd: c_int) -> bool {
    fd >= simfs::FAKE_FD_BASE
}

fn ret_i(r: Result<i32, i32>) -> c_int {
    match r {
        Ok(v) => v,
        Err(e) => {
            unsafe { set_errno(e) };
            -1
        }
    }
}

fn ret_unit(r: Result<(), i32>) -> c_int {
    match r {
        Ok(()) => 0,
        Err(e) => {
            unsafe { set_errno(e) };
            -1
        }
    }
}

fn ret_sz(r: Result<usize, i32>) -> ssize_t {
    match r {
        Ok(v) => v as ssize_t,
        Err(e) => {
            unsafe { set_errno(e) };
            -1
        }
    }
}

fn unmodelled(what: &str) -> c_int {
    with_world(|w| w.unmodelled.push(what.to_string()));
    unsafe { set_errno(libc::ENOSYS) };
    -1
}

// ---------------------------------------------------------------- entropy

#[no_mangle]
pub unsafe extern "C" fn getrandom(buf: *mut c_void, len: size_t, flags: c_uint) -> ssize_t {
    if in_sim() {
        let s = std::slice::from_raw_parts_mut(buf as *mut u8, len);
        with_world(|w| {
            w.entropy_calls += 1;
            w.entropy.fill(s);
        });
        return len as ssize_t;
    }
    match real!("getrandom", unsafe extern "C" fn(*mut c_void, size_t, c_uint) -> ssize_t) {
        Some(f) => f(buf, len, flags),
        None => libc::syscall(libc::SYS_getrandom, buf, len, flags) as ssize_t,
    }
}

// ------------------------------------------------------------------ clock

#[no_mangle]
pub unsafe extern "C" fn clock_gettime(clk: libc::clockid_t, ts: *mut libc::timespec) -> c_int {
    if in_sim() && clk == libc::CLOCK_REALTIME && !ts.is_null() {
        let now = with_world(|w| {
            w.clock_reads += 1;
            w.now_unix
        });
        (*ts).tv_sec = now;
        (*ts).tv_nsec = 0;
        return 0;
    }
    if in_sim() && !ts.is_null() && (clk == libc::CLOCK_MONOTONIC || clk == libc::CLOCK_MONOTONIC_RAW || clk == libc::CLOCK_MONOTONIC_COARSE || clk == libc::CLOCK_BOOTTIME) {
        // simulated offsets (seed-dependent start, latency of the simulated network) on top of real
        // elapsed time: code that WAITS for a timer must see time pass, or it would never wake up
        let real = real_monotonic_ns();
        let ns = with_world(|w| {
            w.clock_reads += 1;
            w.mono_ns + real.saturating_sub(w.real_mono_start_ns)
        });
        (*ts).tv_sec = (ns / 1_000_000_000) as libc::time_t;
        (*ts).tv_nsec = (ns % 1_000_000_000) as libc::c_long;
        return 0;
    }
    match real!("clock_gettime", unsafe extern "C" fn(libc::clockid_t, *mut libc::timespec) -> c_int) {
        Some(f) => f(clk, ts),
        None => libc::syscall(libc::SYS_clock_gettime, clk, ts) as c_int,
    }
}

/// Every simulated process has its own process id.
#[no_mangle]
pub unsafe extern "C" fn getpid() -> libc::pid_t {
    if in_sim() {
        return with_world(|w| w.pid);
    }
    match real!("getpid", unsafe extern "C" fn() -> libc::pid_t) {
        Some(f) => f(),
        None => libc::syscall(libc::SYS_getpid) as libc::pid_t,
    }
}

// ---------------------------------------------------------- open / close

unsafe fn do_open(name: &'static str, path: *const c_char, flags: c_int, mode: mode_t) -> c_int {
    if in_sim() {
        if let Some(p) = sim_path(path) {
            return ret_i(with_world(|w| w.fs.open(&p, flags, mode)));
        }
    }
    let f = match name {
        "open" => real!("open", unsafe extern "C" fn(*const c_char, c_int, ...) -> c_int),
        _ => real!("open64", unsafe extern "C" fn(*const c_char, c_int, ...) -> c_int),
    };
    match f {
        Some(f) => f(path, flags, mode as c_uint),
        None => {
            set_errno(libc::ENOSYS);
            -1
        }
    }
}

#[no_mangle]
pub unsafe extern "C" fn open(path: *const c_char, flags: c_int, mode: mode_t) -> c_int {
    do_open("open", path, flags, mode)
}

#[no_mangle]
pub unsafe extern "C" fn open64(path: *const c_char, flags: c_int, mode: mode_t) -> c_int {
    do_open("open64", path, flags, mode)
}

unsafe fn do_openat(name: &'static str, dirfd: c_int, path: *const c_char, flags: c_int, mode: mode_t) -> c_int {
    if in_sim() {
        if let Some(p) = sim_path(path) {
            return ret_i(with_world(|w| w.fs.open(&p, flags, mode)));
        }
        if let Some(p) = sim_path_at(dirfd, path) {
            return ret_i(with_world(|w| w.fs.open(&p, flags, mode)));
        }
        if fake(dirfd) {
            return unmodelled("openat(relative to simulated dirfd)");
        }
    }
    let f = match name {
        "openat" => real!("openat", unsafe extern "C" fn(c_int, *const c_char, c_int, ...) -> c_int),
        _ => real!("openat64", unsafe extern "C" fn(c_int, *const c_char, c_int, ...) -> c_int),
    };
    match f {
        Some(f) => f(dirfd, path, flags, mode as c_uint),
        None => {
            set_errno(libc::ENOSYS);
            -1
        }
    }
}

#[no_mangle]
pub unsafe extern "C" fn openat(dirfd: c_int, path: *const c_char, flags: c_int, mode: mode_t) -> c_int {
    do_openat("openat", dirfd, path, flags, mode)
}

#[no_mangle]
pub unsafe extern "C" fn openat64(dirfd: c_int, path: *const c_char, flags: c_int, mode: mode_t) -> c_int {
    do_openat("openat64", dirfd, path, flags, mode)
}

#[no_mangle]
pub unsafe extern "C" fn close(fd: c_int) -> c_int {
    if fake(fd) && in_sim() {
        return ret_unit(with_world(|w| w.fs.close(fd)));
    }
    match real!("close", unsafe extern "C" fn(c_int) -> c_int) {
        Some(f) => f(fd),
        None => libc::syscall(libc::SYS_close, fd) as c_int,
    }
}

// ----------------------------------------------------------- read / write

#[no_mangle]
pub unsafe extern "C" fn read(fd: c_int, buf: *mut c_void, n: size_t) -> ssize_t {
    if fake(fd) && in_sim() {
        let s = std::slice::from_raw_parts_mut(buf as *mut u8, n);
        return ret_sz(with_world(|w| w.fs.read(fd, s)));
    }
    match real!("read", unsafe extern "C" fn(c_int, *mut c_void, size_t) -> ssize_t) {
        Some(f) => f(fd, buf, n),
        None => libc::syscall(libc::SYS_read, fd, buf, n) as ssize_t,
    }
}

#[no_mangle]
pub unsafe extern "C" fn write(fd: c_int, buf: *const c_void, n: size_t) -> ssize_t {
    if in_sim() {
        if fd == 1 || fd == 2 {
            let s = std::slice::from_raw_parts(buf as *const u8, n);
            with_world(|w| if fd == 1 { w.out.extend_from_slice(s) } else { w.err.extend_from_slice(s) });
            return n as ssize_t;
        }
        if fake(fd) {
            let s = std::slice::from_raw_parts(buf as *const u8, n);
            return ret_sz(with_world(|w| w.fs.write(fd, s)));
        }
    }
    match real!("write", unsafe extern "C" fn(c_int, *const c_void, size_t) -> ssize_t) {
        Some(f) => f(fd, buf, n),
        None => libc::syscall(libc::SYS_write, fd, buf, n) as ssize_t,
    }
}

#[no_mangle]
pub unsafe extern "C" fn pread64(fd: c_int, buf: *mut c_void, n: size_t, off: off_t) -> ssize_t {
    if fake(fd) && in_sim() {
        let s = std::slice::from_raw_parts_mut(buf as *mut u8, n);
        return ret_sz(with_world(|w| w.fs.pread(fd, off as u64, s)));
    }
    match real!("pread64", unsafe extern "C" fn(c_int, *mut c_void, size_t, off_t) -> ssize_t) {
        Some(f) => f(fd, buf, n, off),
        None => libc::syscall(libc::SYS_pread64, fd, buf, n, off) as ssize_t,
    }
}

#[no_mangle]
pub unsafe extern "C" fn pwrite64(fd: c_int, buf: *const c_void, n: size_t, off: off_t) -> ssize_t {
    if fake(fd) && in_sim() {
        let s = std::slice::from_raw_parts(buf as *const u8, n);
        return ret_sz(with_world(|w| w.fs.pwrite(fd, off as u64, s)));
    }
    match real!("pwrite64", unsafe extern "C" fn(c_int, *const c_void, size_t, off_t) -> ssize_t) {
        Some(f) => f(fd, buf, n, off),
        None => libc::syscall(libc::SYS_pwrite64, fd, buf, n, off) as ssize_t,
    }
}

#[no_mangle]
pub unsafe extern "C" fn readv(fd: c_int, iov: *const libc::iovec, cnt: c_int) -> ssize_t {
    if fake(fd) && in_sim() {
        let mut total = 0usize;
        for i in 0..cnt as usize {
            let v = &*iov.add(i);
            if v.iov_len == 0 {
                continue;
            }
            let s = std::slice::from_raw_parts_mut(v.iov_base as *mut u8, v.iov_len);
            match with_world(|w| w.fs.read(fd, s)) {
                Ok(n) => {
                    total += n;
                    if n < v.iov_len {
                        break;
                    }
                }
                Err(e) => {
                    if total == 0 {
                        set_errno(e);
                        return -1;
                    }
                    break;
                }
            }
        }
        return total as ssize_t;
    }
    match real!("readv", unsafe extern "C" fn(c_int, *const libc::iovec, c_int) -> ssize_t) {
        Some(f) => f(fd, iov, cnt),
        None => libc::syscall(libc::SYS_readv, fd, iov, cnt) as ssize_t,
    }
}

#[no_mangle]
pub unsafe extern "C" fn writev(fd: c_int, iov: *const libc::iovec, cnt: c_int) -> ssize_t {
    if in_sim() && (fd == 1 || fd == 2 || fake(fd)) {
        let mut total = 0usize;
        for i in 0..cnt as usize {
            let v = &*iov.add(i);
            if v.iov_len == 0 {
                continue;
            }
            let n = write(fd, v.iov_base, v.iov_len);
            if n < 0 {
                if total == 0 {
                    return -1;
                }
                break;
            }
            total += n as usize;
            if (n as usize) < v.iov_len {
                break;
            }
        }
        return total as ssize_t;
    }
    match real!("writev", unsafe extern "C" fn(c_int, *const libc::iovec, c_int) -> ssize_t) {
        Some(f) => f(fd, iov, cnt),
        None => libc::syscall(libc::SYS_writev, fd, iov, cnt) as ssize_t,
    }
}

// ------------------------------------------------- sync / truncate / seek

macro_rules! fd_unit_fn {
    ($name:ident, $lit:literal, $method:ident) => {
        #[no_mangle]
        pub unsafe extern "C" fn $name(fd: c_int) -> c_int {
            if fake(fd) && in_sim() {
                return ret_unit(with_world(|w| w.fs.$method(fd)));
            }
            match real!($lit, unsafe extern "C" fn(c_int) -> c_int) {
                Some(f) => f(fd),
                None => {
                    set_errno(libc::ENOSYS);
                    -1
                }
            }
        }
    };
}
fd_unit_fn!(fsync, "fsync", fsync);
fd_unit_fn!(fdatasync, "fdatasync", fsync);

macro_rules! ftruncate_fn {
    ($name:ident, $lit:literal) => {
        #[no_mangle]
        pub unsafe extern "C" fn $name(fd: c_int, len: off_t) -> c_int {
            if fake(fd) && in_sim() {
                return ret_unit(with_world(|w| w.fs.ftruncate(fd, len as u64)));
            }
            match real!($lit, unsafe extern "C" fn(c_int, off_t) -> c_int) {
                Some(f) => f(fd, len),
                None => {
                    set_errno(libc::ENOSYS);
                    -1
                }
            }
        }
    };
}
ftruncate_fn!(ftruncate, "ftruncate");
ftruncate_fn!(ftruncate64, "ftruncate64");

macro_rules! truncate_fn {
    ($name:ident, $lit:literal) => {
        #[no_mangle]
        pub unsafe extern "C" fn $name(path: *const c_char, len: off_t) -> c_int {
            if in_sim() {
                if let Some(p) = sim_path(path) {
                    return ret_unit(with_world(|w| w.fs.truncate(&p, len as u64)));
                }
            }
            match real!($lit, unsafe extern "C" fn(*const c_char, off_t) -> c_int) {
                Some(f) => f(path, len),
                None => {
                    set_errno(libc::ENOSYS);
                    -1
                }
            }
        }
    };
}
truncate_fn!(truncate, "truncate");
truncate_fn!(truncate64, "truncate64");

macro_rules! lseek_fn {
    ($name:ident, $lit:literal) => {
        #[no_mangle]
        pub unsafe extern "C" fn $name(fd: c_int, off: off_t, whence: c_int) -> off_t {
            if fake(fd) && in_sim() {
                return match with_world(|w| w.fs.lseek(fd, off, whence)) {
                    Ok(v) => v as off_t,
                    Err(e) => {
                        set_errno(e);
                        -1
                    }
                };
            }
            match real!($lit, unsafe extern "C" fn(c_int, off_t, c_int) -> off_t) {
                Some(f) => f(fd, off, whence),
                None => {
                    set_errno(libc::ENOSYS);
                    -1
                }
            }
        }
    };
}
lseek_fn!(lseek, "lseek");
lseek_fn!(lseek64, "lseek64");

// ------------------------------------------------------------------- stat

unsafe fn fill_stat64(st: *mut libc::stat64, s: &Stat) {
    std::ptr::write_bytes(st, 0, 1);
    (*st).st_ino = s.ino;
    (*st).st_mode = s.mode;
    (*st).st_nlink = s.nlink as _;
    (*st).st_size = s.size as i64;
    (*st).st_blksize = 4096;
    (*st).st_blocks = s.size.div_ceil(512) as i64;
    (*st).st_uid = 1000;
    (*st).st_gid = 1000;
    (*st).st_mtime = s.mtime;
    (*st).st_ctime = s.mtime;
    (*st).st_atime = s.mtime;
}

unsafe fn fill_statx(st: *mut libc::statx, s: &Stat) {
    std::ptr::write_bytes(st, 0, 1);
    (*st).stx_mask = libc::STATX_BASIC_STATS;
    (*st).stx_ino = s.ino;
    (*st).stx_mode = s.mode as u16;
    (*st).stx_nlink = s.nlink;
    (*st).stx_size = s.size;
    (*st).stx_blksize = 4096;
    (*st).stx_blocks = s.size.div_ceil(512);
    (*st).stx_uid = 1000;
    (*st).stx_gid = 1000;
    (*st).stx_mtime.tv_sec = s.mtime;
    (*st).stx_ctime.tv_sec = s.mtime;
    (*st).stx_atime.tv_sec = s.mtime;
    (*st).stx_btime.tv_sec = s.mtime;
}

#[no_mangle]
pub unsafe extern "C" fn statx(dirfd: c_int, path: *const c_char, flags: c_int, mask: c_uint, buf: *mut libc::statx) -> c_int {
    if in_sim() {
        if let Some(p) = sim_path(path) {
            let nofollow = flags & libc::AT_SYMLINK_NOFOLLOW != 0;
            return match with_world(|w| if nofollow { w.fs.lstat(&p) } else { w.fs.stat(&p) }) {
                Ok(s) => {
                    fill_statx(buf, &s);
                    0
                }
                Err(e) => {
                    set_errno(e);
                    -1
                }
            };
        }
        if fake(dirfd) {
            let empty = path.is_null() || *path == 0;
            if empty && flags & libc::AT_EMPTY_PATH != 0 {
                return match with_world(|w| w.fs.fstat(dirfd)) {
                    Ok(s) => {
                        fill_statx(buf, &s);
                        0
                    }
                    Err(e) => {
                        set_errno(e);
                        -1
                    }
                };
            }
            if let Some(p) = sim_path_at(dirfd, path) {
                let nofollow = flags & libc::AT_SYMLINK_NOFOLLOW != 0;
                return match with_world(|w| if nofollow { w.fs.lstat(&p) } else { w.fs.stat(&p) }) {
                    Ok(s) => {
                        fill_statx(buf, &s);
                        0
                    }
                    Err(e) => {
                        set_errno(e);
                        -1
                    }
                };
            }
            return unmodelled("statx(relative to simulated dirfd)");
        }
    }
    match real!("statx", unsafe extern "C" fn(c_int, *const c_char, c_int, c_uint, *mut libc::statx) -> c_int) {
        Some(f) => f(dirfd, path, flags, mask, buf),
        None => libc::syscall(libc::SYS_statx, dirfd, path, flags, mask, buf) as c_int,
    }
}

macro_rules! path_stat_fn {
    ($name:ident, $lit:literal, $follow:literal) => {
        #[no_mangle]
        pub unsafe extern "C" fn $name(path: *const c_char, buf: *mut libc::stat64) -> c_int {
            if in_sim() {
                if let Some(p) = sim_path(path) {
                    return match with_world(|w| if $follow { w.fs.stat(&p) } else { w.fs.lstat(&p) }) {
                        Ok(s) => {
                            fill_stat64(buf, &s);
                            0
                        }
                        Err(e) => {
                            set_errno(e);
                            -1
                        }
                    };
                }
            }
            match real!($lit, unsafe extern "C" fn(*const c_char, *mut libc::stat64) -> c_int) {
                Some(f) => f(path, buf),
                None => {
                    set_errno(libc::ENOSYS);
                    -1
                }
            }
        }
    };
}
path_stat_fn!(stat, "stat", true);
path_stat_fn!(stat64, "stat64", true);
path_stat_fn!(lstat, "lstat", false);
path_stat_fn!(lstat64, "lstat64", false);

macro_rules! fd_stat_fn {
    ($name:ident, $lit:literal) => {
        #[no_mangle]
        pub unsafe extern "C" fn $name(fd: c_int, buf: *mut libc::stat64) -> c_int {
            if fake(fd) && in_sim() {
                return match with_world(|w| w.fs.fstat(fd)) {
                    Ok(s) => {
                        fill_stat64(buf, &s);
                        0
                    }
                    Err(e) => {
                        set_errno(e);
                        -1
                    }
                };
            }
            match real!($lit, unsafe extern "C" fn(c_int, *mut libc::stat64) -> c_int) {
                Some(f) => f(fd, buf),
                None => {
                    set_errno(libc::ENOSYS);
                    -1
                }
            }
        }
    };
}
fd_stat_fn!(fstat, "fstat");
fd_stat_fn!(fstat64, "fstat64");

macro_rules! fstatat_fn {
    ($name:ident, $lit:literal) => {
        #[no_mangle]
        pub unsafe extern "C" fn $name(dirfd: c_int, path: *const c_char, buf: *mut libc::stat64, flags: c_int) -> c_int {
            if in_sim() {
                if let Some(p) = sim_path(path) {
                    let nofollow = flags & libc::AT_SYMLINK_NOFOLLOW != 0;
                    return match with_world(|w| if nofollow { w.fs.lstat(&p) } else { w.fs.stat(&p) }) {
                        Ok(s) => {
                            fill_stat64(buf, &s);
                            0
                        }
                        Err(e) => {
                            set_errno(e);
                            -1
                        }
                    };
                }
                if fake(dirfd) {
                    let empty = path.is_null() || *path == 0;
                    if empty && flags & libc::AT_EMPTY_PATH != 0 {
                        return fstat64(dirfd, buf);
                    }
                    if let Some(p) = sim_path_at(dirfd, path) {
                        let nofollow = flags & libc::AT_SYMLINK_NOFOLLOW != 0;
                        return match with_world(|w| if nofollow { w.fs.lstat(&p) } else { w.fs.stat(&p) }) {
                            Ok(s) => {
                                fill_stat64(buf, &s);
                                0
                            }
                            Err(e) => {
                                set_errno(e);
                                -1
                            }
                        };
                    }
                    return unmodelled("fstatat(relative to simulated dirfd)");
                }
            }
            match real!($lit, unsafe extern "C" fn(c_int, *const c_char, *mut libc::stat64, c_int) -> c_int) {
                Some(f) => f(dirfd, path, buf, flags),
                None => {
                    set_errno(libc::ENOSYS);
                    -1
                }
            }
        }
    };
}
fstatat_fn!(fstatat, "fstatat");
fstatat_fn!(fstatat64, "fstatat64");

#[no_mangle]
pub unsafe extern "C" fn access(path: *const c_char, mode: c_int) -> c_int {
    if in_sim() {
        if let Some(p) = sim_path(path) {
            return ret_unit(with_world(|w| w.fs.access(&p)));
        }
    }
    match real!("access", unsafe extern "C" fn(*const c_char, c_int) -> c_int) {
        Some(f) => f(path, mode),
        None => {
            set_errno(libc::ENOSYS);
            -1
        }
    }
}

#[no_mangle]
pub unsafe extern "C" fn faccessat(dirfd: c_int, path: *const c_char, mode: c_int, flags: c_int) -> c_int {
    if in_sim() {
        if let Some(p) = sim_path(path) {
            return ret_unit(with_world(|w| w.fs.access(&p)));
        }
    }
    match real!("faccessat", unsafe extern "C" fn(c_int, *const c_char, c_int, c_int) -> c_int) {
        Some(f) => f(dirfd, path, mode, flags),
        None => {
            set_errno(libc::ENOSYS);
            -1
        }
    }
}

// ------------------------------------------------ directory / name changes

#[no_mangle]
pub unsafe extern "C" fn mkdir(path: *const c_char, mode: mode_t) -> c_int {
    if in_sim() {
        if let Some(p) = sim_path(path) {
            return ret_unit(with_world(|w| w.fs.mkdir(&p, mode)));
        }
    }
    match real!("mkdir", unsafe extern "C" fn(*const c_char, mode_t) -> c_int) {
        Some(f) => f(path, mode),
        None => {
            set_errno(libc::ENOSYS);
            -1
        }
    }
}

#[no_mangle]
pub unsafe extern "C" fn mkdirat(dirfd: c_int, path: *const c_char, mode: mode_t) -> c_int {
    if in_sim() {
        if let Some(p) = sim_path(path) {
            return ret_unit(with_world(|w| w.fs.mkdir(&p, mode)));
        }
    }
    match real!("mkdirat", unsafe extern "C" fn(c_int, *const c_char, mode_t) -> c_int) {
        Some(f) => f(dirfd, path, mode),
        None => {
            set_errno(libc::ENOSYS);
            -1
        }
    }
}

#[no_mangle]
pub unsafe extern "C" fn rmdir(path: *const c_char) -> c_int {
    if in_sim() {
        if let Some(p) = sim_path(path) {
            return ret_unit(with_world(|w| w.fs.rmdir(&p)));
        }
    }
    match real!("rmdir", unsafe extern "C" fn(*const c_char) -> c_int) {
        Some(f) => f(path),
        None => {
            set_errno(libc::ENOSYS);
            -1
        }
    }
}

#[no_mangle]
pub unsafe extern "C" fn unlink(path: *const c_char) -> c_int {
    if in_sim() {
        if let Some(p) = sim_path(path) {
            return ret_unit(with_world(|w| w.fs.unlink(&p)));
        }
    }
    match real!("unlink", unsafe extern "C" fn(*const c_char) -> c_int) {
        Some(f) => f(path),
        None => {
            set_errno(libc::ENOSYS);
            -1
        }
    }
}

#[no_mangle]
pub unsafe extern "C" fn unlinkat(dirfd: c_int, path: *const c_char, flags: c_int) -> c_int {
    if in_sim() {
        if let Some(p) = sim_path(path) {
            return if flags & libc::AT_REMOVEDIR != 0 {
                ret_unit(with_world(|w| w.fs.rmdir(&p)))
            } else {
                ret_unit(with_world(|w| w.fs.unlink(&p)))
            };
        }
        if let Some(p) = sim_path_at(dirfd, path) {
            return if flags & libc::AT_REMOVEDIR != 0 {
                ret_unit(with_world(|w| w.fs.rmdir(&p)))
            } else {
                ret_unit(with_world(|w| w.fs.unlink(&p)))
            };
        }
        if fake(dirfd) {
            return unmodelled("unlinkat(relative to simulated dirfd)");
        }
    }
    match real!("unlinkat", unsafe extern "C" fn(c_int, *const c_char, c_int) -> c_int) {
        Some(f) => f(dirfd, path, flags),
        None => {
            set_errno(libc::ENOSYS);
            -1
        }
    }
}

unsafe fn sim_rename(from: *const c_char, to: *const c_char, noreplace: bool) -> Option<c_int> {
    if !in_sim() {
        return None;
    }
    match (sim_path(from), sim_path(to)) {
        (Some(a), Some(b)) => Some(ret_unit(with_world(|w| w.fs.rename(&a, &b, noreplace)))),
        (None, None) => None,
        _ => {
            set_errno(libc::EXDEV);
            Some(-1)
        }
    }
}

#[no_mangle]
pub unsafe extern "C" fn rename(from: *const c_char, to: *const c_char) -> c_int {
    if let Some(r) = sim_rename(from, to, false) {
        return r;
    }
    match real!("rename", unsafe extern "C" fn(*const c_char, *const c_char) -> c_int) {
        Some(f) => f(from, to),
        None => {
            set_errno(libc::ENOSYS);
            -1
        }
    }
}

#[no_mangle]
pub unsafe extern "C" fn renameat(fd1: c_int, from: *const c_char, fd2: c_int, to: *const c_char) -> c_int {
    if let Some(r) = sim_rename(from, to, false) {
        return r;
    }
    match real!("renameat", unsafe extern "C" fn(c_int, *const c_char, c_int, *const c_char) -> c_int) {
        Some(f) => f(fd1, from, fd2, to),
        None => {
            set_errno(libc::ENOSYS);
            -1
        }
    }
}

#[no_mangle]
pub unsafe extern "C" fn renameat2(fd1: c_int, from: *const c_char, fd2: c_int, to: *const c_char, flags: c_uint) -> c_int {
    if in_sim() && (sim_path(from).is_some() || sim_path(to).is_some()) {
        if flags & !(libc::RENAME_NOREPLACE) != 0 {
            return unmodelled("renameat2(flags other than RENAME_NOREPLACE)");
        }
        if let Some(r) = sim_rename(from, to, flags & libc::RENAME_NOREPLACE != 0) {
            return r;
        }
    }
    match real!("renameat2", unsafe extern "C" fn(c_int, *const c_char, c_int, *const c_char, c_uint) -> c_int) {
        Some(f) => f(fd1, from, fd2, to, flags),
        None => libc::syscall(libc::SYS_renameat2, fd1, from, fd2, to, flags) as c_int,
    }
}

unsafe fn sim_link(from: *const c_char, to: *const c_char) -> Option<c_int> {
    if !in_sim() {
        return None;
    }
    match (sim_path(from), sim_path(to)) {
        (Some(a), Some(b)) => Some(ret_unit(with_world(|w| w.fs.link(&a, &b)))),
        (None, None) => None,
        _ => {
            set_errno(libc::EXDEV);
            Some(-1)
        }
    }
}

#[no_mangle]
pub unsafe extern "C" fn link(from: *const c_char, to: *const c_char) -> c_int {
    if let Some(r) = sim_link(from, to) {
        return r;
    }
    match real!("link", unsafe extern "C" fn(*const c_char, *const c_char) -> c_int) {
        Some(f) => f(from, to),
        None => {
            set_errno(libc::ENOSYS);
            -1
        }
    }
}

#[no_mangle]
pub unsafe extern "C" fn linkat(fd1: c_int, from: *const c_char, fd2: c_int, to: *const c_char, flags: c_int) -> c_int {
    if let Some(r) = sim_link(from, to) {
        return r;
    }
    match real!("linkat", unsafe extern "C" fn(c_int, *const c_char, c_int, *const c_char, c_int) -> c_int) {
        Some(f) => f(fd1, from, fd2, to, flags),
        None => {
            set_errno(libc::ENOSYS);
            -1
        }
    }
}

unsafe fn raw_target(t: *const c_char) -> Option<String> {
    if t.is_null() {
        return None;
    }
    let b = CStr::from_ptr(t).to_bytes();
    Some(match std::str::from_utf8(b) {
        Ok(s) => s.to_string(),
        Err(_) => b.iter().map(|c| *c as char).collect(),
    })
}

#[no_mangle]
pub unsafe extern "C" fn symlink(target: *const c_char, linkpath: *const c_char) -> c_int {
    if in_sim() {
        if let Some(p) = sim_path(linkpath) {
            let t = raw_target(target).unwrap_or_default();
            return ret_unit(with_world(|w| w.fs.symlink(&t, &p)));
        }
    }
    match real!("symlink", unsafe extern "C" fn(*const c_char, *const c_char) -> c_int) {
        Some(f) => f(target, linkpath),
        None => {
            set_errno(libc::ENOSYS);
            -1
        }
    }
}

#[no_mangle]
pub unsafe extern "C" fn symlinkat(target: *const c_char, dirfd: c_int, linkpath: *const c_char) -> c_int {
    if in_sim() {
        if let Some(p) = sim_path(linkpath).or_else(|| sim_path_at(dirfd, linkpath)) {
            let t = raw_target(target).unwrap_or_default();
            return ret_unit(with_world(|w| w.fs.symlink(&t, &p)));
        }
        if fake(dirfd) {
            return unmodelled("symlinkat(relative to simulated dirfd)");
        }
    }
    match real!("symlinkat", unsafe extern "C" fn(*const c_char, c_int, *const c_char) -> c_int) {
        Some(f) => f(target, dirfd, linkpath),
        None => {
            set_errno(libc::ENOSYS);
            -1
        }
    }
}

unsafe fn copy_link_target(r: Result<String, i32>, buf: *mut c_char, len: size_t) -> ssize_t {
    match r {
        Ok(t) => {
            let bytes = t.into_bytes();
            let n = bytes.len().min(len);
            std::ptr::copy_nonoverlapping(bytes.as_ptr(), buf as *mut u8, n);
            n as ssize_t
        }
        Err(e) => {
            set_errno(e);
            -1
        }
    }
}

#[no_mangle]
pub unsafe extern "C" fn readlink(path: *const c_char, buf: *mut c_char, len: size_t) -> ssize_t {
    if in_sim() {
        if let Some(p) = sim_path(path) {
            return copy_link_target(with_world(|w| w.fs.readlink(&p)), buf, len);
        }
    }
    match real!("readlink", unsafe extern "C" fn(*const c_char, *mut c_char, size_t) -> ssize_t) {
        Some(f) => f(path, buf, len),
        None => {
            set_errno(libc::ENOSYS);
            -1
        }
    }
}

#[no_mangle]
pub unsafe extern "C" fn readlinkat(dirfd: c_int, path: *const c_char, buf: *mut c_char, len: size_t) -> ssize_t {
    if in_sim() {
        if let Some(p) = sim_path(path).or_else(|| sim_path_at(dirfd, path)) {
            return copy_link_target(with_world(|w| w.fs.readlink(&p)), buf, len);
        }
        if fake(dirfd) {
            return unmodelled("readlinkat(relative to simulated dirfd)") as ssize_t;
        }
    }
    match real!("readlinkat", unsafe extern "C" fn(c_int, *const c_char, *mut c_char, size_t) -> ssize_t) {
        Some(f) => f(dirfd, path, buf, len),
        None => {
            set_errno(libc::ENOSYS);
            -1
        }
    }
}

/// realpath(3) resolves links inside libc with calls that cannot be interposed: answer for /simfs here.
#[no_mangle]
pub unsafe extern "C" fn realpath(path: *const c_char, resolved: *mut c_char) -> *mut c_char {
    if in_sim() {
        if let Some(p) = sim_path(path) {
            return match with_world(|w| w.fs.realpath(&p)) {
                Ok(r) => {
                    let bytes = r.into_bytes();
                    let out = if resolved.is_null() { libc::malloc(bytes.len() + 1) as *mut c_char } else { resolved };
                    if out.is_null() {
                        set_errno(libc::ENOMEM);
                        return std::ptr::null_mut();
                    }
                    std::ptr::copy_nonoverlapping(bytes.as_ptr(), out as *mut u8, bytes.len());
                    *out.add(bytes.len()) = 0;
                    out
                }
                Err(e) => {
                    set_errno(e);
                    std::ptr::null_mut()
                }
            };
        }
    }
    match real!("realpath", unsafe extern "C" fn(*const c_char, *mut c_char) -> *mut c_char) {
        Some(f) => f(path, resolved),
        None => {
            set_errno(libc::ENOSYS);
            std::ptr::null_mut()
        }
    }
}

#[no_mangle]
pub unsafe extern "C" fn chmod(path: *const c_char, mode: mode_t) -> c_int {
    if in_sim() {
        if let Some(p) = sim_path(path) {
            return ret_unit(with_world(|w| w.fs.chmod(&p, mode)));
        }
    }
    match real!("chmod", unsafe extern "C" fn(*const c_char, mode_t) -> c_int) {
        Some(f) => f(path, mode),
        None => {
            set_errno(libc::ENOSYS);
            -1
        }
    }
}

#[no_mangle]
pub unsafe extern "C" fn fchmodat(dirfd: c_int, path: *const c_char, mode: mode_t, flags: c_int) -> c_int {
    if in_sim() {
        if let Some(p) = sim_path(path) {
            return ret_unit(with_world(|w| w.fs.chmod(&p, mode)));
        }
    }
    match real!("fchmodat", unsafe extern "C" fn(c_int, *const c_char, mode_t, c_int) -> c_int) {
        Some(f) => f(dirfd, path, mode, flags),
        None => {
            set_errno(libc::ENOSYS);
            -1
        }
    }
}

#[no_mangle]
pub unsafe extern "C" fn fchmod(fd: c_int, mode: mode_t) -> c_int {
    if fake(fd) && in_sim() {
        return ret_unit(with_world(|w| w.fs.fchmod(fd, mode)));
    }
    match real!("fchmod", unsafe extern "C" fn(c_int, mode_t) -> c_int) {
        Some(f) => f(fd, mode),
        None => {
            set_errno(libc::ENOSYS);
            -1
        }
    }
}

// ------------------------------------------------------------ fcntl / misc

unsafe fn do_fcntl(lit: &'static str, fd: c_int, cmd: c_int, arg: usize) -> c_int {
    if fake(fd) && in_sim() {
        return match cmd {
            libc::F_GETFD => libc::FD_CLOEXEC,
            libc::F_SETFD | libc::F_SETFL => 0,
            libc::F_GETFL => ret_i(with_world(|w| w.fs.flags_of(fd))),
            libc::F_DUPFD | libc::F_DUPFD_CLOEXEC => ret_i(with_world(|w| w.fs.dup(fd))),
            libc::F_SETLK | libc::F_SETLKW | libc::F_OFD_SETLK | libc::F_OFD_SETLKW => 0,
            _ => unmodelled("fcntl(cmd) on simulated descriptor"),
        };
    }
    let f = match lit {
        "fcntl" => real!("fcntl", unsafe extern "C" fn(c_int, c_int, ...) -> c_int),
        _ => real!("fcntl64", unsafe extern "C" fn(c_int, c_int, ...) -> c_int),
    };
    match f {
        Some(f) => f(fd, cmd, arg),
        None => {
            set_errno(libc::ENOSYS);
            -1
        }
    }
}

#[no_mangle]
pub unsafe extern "C" fn fcntl(fd: c_int, cmd: c_int, arg: usize) -> c_int {
    do_fcntl("fcntl", fd, cmd, arg)
}

#[no_mangle]
pub unsafe extern "C" fn fcntl64(fd: c_int, cmd: c_int, arg: usize) -> c_int {
    do_fcntl("fcntl64", fd, cmd, arg)
}

#[no_mangle]
pub unsafe extern "C" fn flock(fd: c_int, op: c_int) -> c_int {
    if fake(fd) && in_sim() {
        return 0;
    }
    match real!("flock", unsafe extern "C" fn(c_int, c_int) -> c_int) {
        Some(f) => f(fd, op),
        None => {
            set_errno(libc::ENOSYS);
            -1
        }
    }
}

#[no_mangle]
pub unsafe extern "C" fn dup(fd: c_int) -> c_int {
    if fake(fd) && in_sim() {
        return ret_i(with_world(|w| w.fs.dup(fd)));
    }
    match real!("dup", unsafe extern "C" fn(c_int) -> c_int) {
        Some(f) => f(fd),
        None => {
            set_errno(libc::ENOSYS);
            -1
        }
    }
}

/// Directory listing of simulated directories: opendir hands out a pointer to a SimDir (never
/// dereferenced by libc), readdir64 walks a snapshot of the children taken at opendir time, in
/// name order (a real file system promises no order; name order is one legal choice).
#[repr(C)]
struct SimDir {
    magic: u64,
    fd: c_int,
    pos: usize,
    entries: Vec<(String, bool, u64)>,
    ent: libc::dirent64,
}
const SIMDIR_MAGIC: u64 = 0x5349_4D44_4952_2121;

static SIMDIRS: std::sync::Mutex<Vec<usize>> = std::sync::Mutex::new(Vec::new());

unsafe fn as_simdir(d: *mut libc::DIR) -> Option<*mut SimDir> {
    if d.is_null() {
        return None;
    }
    let known = SIMDIRS.lock().map(|v| v.contains(&(d as usize))).unwrap_or(false);
    if known && (*(d as *mut SimDir)).magic == SIMDIR_MAGIC {
        Some(d as *mut SimDir)
    } else {
        None
    }
}

unsafe fn open_simdir(p: &str) -> *mut libc::DIR {
    let fd = match with_world(|w| w.fs.open(p, libc::O_RDONLY | libc::O_DIRECTORY, 0)) {
        Ok(fd) => fd,
        Err(e) => {
            set_errno(e);
            return std::ptr::null_mut();
        }
    };
    let entries = with_world(|w| {
        let real = w.fs.path_of_fd(fd).unwrap_or_else(|_| p.to_string());
        w.fs.disk.children(&real)
    });
    let b = Box::new(SimDir { magic: SIMDIR_MAGIC, fd, pos: 0, entries, ent: std::mem::zeroed() });
    let ptr = Box::into_raw(b);
    if let Ok(mut v) = SIMDIRS.lock() {
        v.push(ptr as usize);
    }
    ptr as *mut libc::DIR
}

#[no_mangle]
pub unsafe extern "C" fn opendir(path: *const c_char) -> *mut libc::DIR {
    if in_sim() {
        if let Some(p) = sim_path(path) {
            return open_simdir(&p);
        }
    }
    match real!("opendir", unsafe extern "C" fn(*const c_char) -> *mut libc::DIR) {
        Some(f) => f(path),
        None => {
            set_errno(libc::ENOSYS);
            std::ptr::null_mut()
        }
    }
}

#[no_mangle]
pub unsafe extern "C" fn fdopendir(fd: c_int) -> *mut libc::DIR {
    if in_sim() && fake(fd) {
        return match with_world(|w| w.fs.path_of_fd(fd)) {
            Ok(p) => {
                // the stream adopts the descriptor it was given (callers keep using it for *at calls)
                let entries = with_world(|w| w.fs.disk.children(&p));
                let b = Box::new(SimDir { magic: SIMDIR_MAGIC, fd, pos: 0, entries, ent: std::mem::zeroed() });
                let ptr = Box::into_raw(b);
                if let Ok(mut v) = SIMDIRS.lock() {
                    v.push(ptr as usize);
                }
                ptr as *mut libc::DIR
            }
            Err(e) => {
                set_errno(e);
                std::ptr::null_mut()
            }
        };
    }
    match real!("fdopendir", unsafe extern "C" fn(c_int) -> *mut libc::DIR) {
        Some(f) => f(fd),
        None => {
            set_errno(libc::ENOSYS);
            std::ptr::null_mut()
        }
    }
}

unsafe fn simdir_next(sd: *mut SimDir) -> *mut libc::dirent64 {
    let d = &mut *sd;
    if d.pos >= d.entries.len() {
        return std::ptr::null_mut();
    }
    let (name, is_dir, ino) = d.entries[d.pos].clone();
    d.pos += 1;
    d.ent = std::mem::zeroed();
    d.ent.d_ino = ino;
    d.ent.d_off = d.pos as i64;
    d.ent.d_reclen = std::mem::size_of::<libc::dirent64>() as u16;
    let is_link = with_world(|w| w.fs.disk.inodes.get(&ino).map(|i| i.link.is_some()).unwrap_or(false));
    d.ent.d_type = if is_dir {
        libc::DT_DIR
    } else if is_link {
        libc::DT_LNK
    } else {
        libc::DT_REG
    };
    let bytes = name.as_bytes();
    let n = bytes.len().min(d.ent.d_name.len() - 1);
    for (i, b) in bytes[..n].iter().enumerate() {
        d.ent.d_name[i] = *b as c_char;
    }
    d.ent.d_name[n] = 0;
    &mut d.ent
}

#[no_mangle]
pub unsafe extern "C" fn readdir64(dirp: *mut libc::DIR) -> *mut libc::dirent64 {
    if let Some(sd) = as_simdir(dirp) {
        return simdir_next(sd);
    }
    match real!("readdir64", unsafe extern "C" fn(*mut libc::DIR) -> *mut libc::dirent64) {
        Some(f) => f(dirp),
        None => std::ptr::null_mut(),
    }
}

#[no_mangle]
pub unsafe extern "C" fn readdir(dirp: *mut libc::DIR) -> *mut libc::dirent {
    if let Some(sd) = as_simdir(dirp) {
        // dirent and dirent64 have the same layout on x86-64 Linux
        return simdir_next(sd) as *mut libc::dirent;
    }
    match real!("readdir", unsafe extern "C" fn(*mut libc::DIR) -> *mut libc::dirent) {
        Some(f) => f(dirp),
        None => std::ptr::null_mut(),
    }
}

#[no_mangle]
pub unsafe extern "C" fn dirfd(dirp: *mut libc::DIR) -> c_int {
    if let Some(sd) = as_simdir(dirp) {
        return (*sd).fd;
    }
    match real!("dirfd", unsafe extern "C" fn(*mut libc::DIR) -> c_int) {
        Some(f) => f(dirp),
        None => {
            set_errno(libc::ENOSYS);
            -1
        }
    }
}

#[no_mangle]
pub unsafe extern "C" fn closedir(dirp: *mut libc::DIR) -> c_int {
    if let Some(sd) = as_simdir(dirp) {
        if let Ok(mut v) = SIMDIRS.lock() {
            v.retain(|p| *p != dirp as usize);
        }
        let b = Box::from_raw(sd);
        let _ = with_world(|w| w.fs.close(b.fd));
        return 0;
    }
    match real!("closedir", unsafe extern "C" fn(*mut libc::DIR) -> c_int) {
        Some(f) => f(dirp),
        None => {
            set_errno(libc::ENOSYS);
            -1
        }
    }
}

// std::fs::copy tries copy_file_range and sendfile before falling back to a read/write loop.
// The simulated disk only speaks read/write, so for simulated descriptors both say "not
// supported here" and std takes the loop (whose writes are journalled like any others).
#[no_mangle]
pub unsafe extern "C" fn copy_file_range(fd_in: c_int, off_in: *mut i64, fd_out: c_int, off_out: *mut i64, len: size_t, flags: c_uint) -> ssize_t {
    if in_sim() && (fake(fd_in) || fake(fd_out)) {
        set_errno(libc::ENOSYS);
        return -1;
    }
    match real!("copy_file_range", unsafe extern "C" fn(c_int, *mut i64, c_int, *mut i64, size_t, c_uint) -> ssize_t) {
        Some(f) => f(fd_in, off_in, fd_out, off_out, len, flags),
        None => libc::syscall(libc::SYS_copy_file_range, fd_in, off_in, fd_out, off_out, len, flags) as ssize_t,
    }
}

macro_rules! sendfile_fn {
    ($name:ident, $lit:literal) => {
        #[no_mangle]
        pub unsafe extern "C" fn $name(out_fd: c_int, in_fd: c_int, offset: *mut off_t, count: size_t) -> ssize_t {
            if in_sim() && (fake(out_fd) || fake(in_fd)) {
                set_errno(libc::ENOSYS);
                return -1;
            }
            match real!($lit, unsafe extern "C" fn(c_int, c_int, *mut off_t, size_t) -> ssize_t) {
                Some(f) => f(out_fd, in_fd, offset, count),
                None => {
                    set_errno(libc::ENOSYS);
                    -1
                }
            }
        }
    };
}
sendfile_fn!(sendfile, "sendfile");
sendfile_fn!(sendfile64, "sendfile64");

/// The simulated network took its time: the process's monotonic clock moves on by a latency that
/// depends on the process (its seed) and on how many requests it has made - between 1 and ~300 ms.
pub fn simulated_request_latency() {
    with_world(|w| {
        w.requests_timed += 1;
        let ms = 1 + crate::prng::mix(w.latency_seed, w.requests_timed, 0x1A7E) % 300;
        w.mono_ns += ms * 1_000_000;
    });
}

pub fn real_monotonic_ns() -> u64 {
    let mut ts = libc::timespec { tv_sec: 0, tv_nsec: 0 };
    unsafe {
        match real!("clock_gettime", unsafe extern "C" fn(libc::clockid_t, *mut libc::timespec) -> c_int) {
            Some(f) => {
                f(libc::CLOCK_MONOTONIC, &mut ts);
            }
            None => {
                libc::syscall(libc::SYS_clock_gettime, libc::CLOCK_MONOTONIC, &mut ts);
            }
        }
    }
    ts.tv_sec as u64 * 1_000_000_000 + ts.tv_nsec as u64
}
