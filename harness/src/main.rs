mod interpose;
mod prng;
mod proc;
mod simfs;

use std::collections::HashSet;
use time::macros::date;

fn main() {
    for seed in [1u64, 1, 2, 3] {
        let env = proc::ProcEnv::new(seed, date!(2022 - 01 - 20));
        let out = proc::run_process(&env, || {
            let hs: HashSet<&str> = ["a", "b", "c", "d", "e", "f"].into_iter().collect();
            let order: Vec<&str> = hs.iter().copied().collect();
            println!("order {:?}", order);
            eprintln!("today {}", acb::util::date::today_local());
            let now = std::time::SystemTime::now().duration_since(std::time::UNIX_EPOCH).unwrap().as_secs();
            println!("now {}", now);
            let dir = std::path::Path::new("/simfs/home/.acb");
            acb::util::os::mk_writable_dir(dir).unwrap();
            let p = dir.join("x.tmp");
            std::fs::write(&p, b"hello world").unwrap();
            let f = std::fs::File::open(&p).unwrap();
            f.sync_all().unwrap();
            drop(f);
            std::fs::rename(&p, dir.join("x.csv")).unwrap();
            let s = std::fs::read_to_string(dir.join("x.csv")).unwrap();
            println!("read back {:?} meta {:?}", s, std::fs::metadata(dir.join("x.csv")).map(|m| m.len()));
            println!("missing {:?}", std::fs::File::open(dir.join("nope")).map(|_| ()).map_err(|e| e.kind()));
            let d = std::fs::File::open(dir).unwrap(); d.sync_all().unwrap();
            order.join("")
        });
        println!("seed {} -> {:?}\n stdout={:?}\n stderr={:?}\n journal={:?}\n entropy={} clock={} unmod={:?}", seed, out.result,
            String::from_utf8_lossy(&out.stdout), String::from_utf8_lossy(&out.stderr),
            out.journal.iter().map(|o| o.describe()).collect::<Vec<_>>(), out.entropy_calls, out.clock_reads, out.unmodelled);
    }
    println!("real fs untouched: {}", !std::path::Path::new("/simfs").exists());
}
