//! acbsim — deterministic simulation with fault injection for tsiemens/acb.
//!
//!   acbsim run <PROPERTY> <quick|thorough>     driver: spawns worker processes, merges, writes evidence
//!   acbsim worker ...                          (internal)
//!   acbsim replay <file>                       re-execute a replay file in a fresh process
//!   acbsim audit-determinism [PROPERTY] [N]    run N seeds twice at worker counts 1 and 16, diff digests

mod c09;
mod c12;
mod c13;
mod c14;
mod common;
mod fx;
mod interpose;
mod prng;
mod proc;
mod selftest;
mod simfs;

use common::*;
use serde_json::Value;
use std::io::Write;
use std::process::{Command, Stdio};
use std::time::Instant;

const EXIT_OK: i32 = 0;
const EXIT_VIOLATION: i32 = 1;
const EXIT_HARNESS: i32 = 2;

macro_rules! dispatch {
    ($prop:expr, $e:ident => $body:expr) => {
        match $prop {
            "C09" => {
                let $e = &c09::C09;
                $body
            }
            "C12" => {
                let $e = &c12::C12;
                $body
            }
            "C13" => {
                let $e = &c13::C13;
                $body
            }
            "C14" => {
                let $e = &c14::C14;
                $body
            }
            other => {
                eprintln!("HARNESS-ERROR unknown property {}", other);
                std::process::exit(EXIT_HARNESS);
            }
        }
    };
}

fn base_seed() -> u64 {
    match std::env::var("VERIF_SEED") {
        Ok(s) if !s.trim().is_empty() => s.trim().parse::<u64>().unwrap_or_else(|_| {
            // Non-numeric seeds are hashed, so any string is usable.
            prng::fnv64(s.as_bytes())
        }),
        _ => DEFAULT_SEED,
    }
}

fn n_workers() -> u64 {
    if let Ok(s) = std::env::var("VERIF_WORKERS") {
        if let Ok(n) = s.parse::<u64>() {
            return n.clamp(1, 64);
        }
    }
    std::thread::available_parallelism().map(|n| n.get() as u64).unwrap_or(4).clamp(1, 16)
}

#[derive(serde::Deserialize, Default)]
struct KnownFindings {
    #[serde(default)]
    findings: Vec<KnownFinding>,
}

#[derive(serde::Deserialize)]
struct KnownFinding {
    property: String,
    status: String,
    signature: String,
    #[serde(default)]
    text: String,
}

fn load_known() -> KnownFindings {
    match std::fs::read_to_string("/verif/known_findings.json") {
        Ok(s) => serde_json::from_str(&s).unwrap_or_else(|e| {
            eprintln!("HARNESS-ERROR cannot parse /verif/known_findings.json: {}", e);
            std::process::exit(EXIT_HARNESS);
        }),
        Err(_) => KnownFindings::default(),
    }
}

fn run_driver<E: Engine>(e: &E, tier: Tier) -> i32 {
    let start = Instant::now();
    let seed = base_seed();
    let nw = n_workers();
    let (mut count, mut soft) = e.budget(tier);
    if let Ok(s) = std::env::var("VERIF_COUNT") {
        if let Ok(n) = s.parse::<u64>() {
            count = n;
        }
    }
    if let Ok(s) = std::env::var("VERIF_SOFT_SECS") {
        if let Ok(n) = s.parse::<u64>() {
            soft = n;
        }
    }
    println!("acbsim: property={} engine={} tier={} VERIF_SEED={} workers={} scenarios={} soft_deadline={}s", e.property(), e.engine_name(), tier.name(), seed, nw, count, soft);
    let exe = std::env::current_exe().expect("current_exe");
    let run_dir = format!("{}/.runs/{}-{}-{}", if out_dir() == "/verif" { "/verif/target".to_string() } else { out_dir() }, e.property(), tier.name(), std::process::id());
    let _ = std::fs::remove_dir_all(&run_dir);
    std::fs::create_dir_all(&run_dir).expect("create run dir");
    let mut children = vec![];
    for w in 0..nw {
        let out = format!("{}/worker-{}.json", run_dir, w);
        let child = Command::new(&exe)
            .args(["worker", e.property(), tier.name(), &seed.to_string(), &w.to_string(), &nw.to_string(), &count.to_string(), &soft.to_string(), &out])
            .stdin(Stdio::null())
            .stdout(Stdio::inherit())
            .stderr(Stdio::inherit())
            .spawn()
            .expect("spawn worker");
        children.push((w, out, child));
    }
    // Hard watchdog: soft deadline + generous slack for minimisation.
    let hard = start + std::time::Duration::from_secs(soft + 240);
    let mut total = WorkerReport { first_index: u64::MAX, ..Default::default() };
    let mut harness_errors: Vec<String> = vec![];
    // (replay path, kind, description) of scenarios whose OS process hung or died
    let mut abnormal: Vec<(String, String, String)> = vec![];
    for (w, out, mut child) in children {
        let status = loop {
            match child.try_wait() {
                Ok(Some(s)) => break Some(s),
                Ok(None) => {
                    if Instant::now() > hard {
                        let _ = child.kill();
                        let _ = child.wait();
                        break None;
                    }
                    std::thread::sleep(std::time::Duration::from_millis(20));
                }
                Err(_) => break None,
            }
        };
        let progress = std::fs::read_to_string(format!("{}.progress", out)).unwrap_or_default();
        match status {
            Some(s) if s.success() => match std::fs::read_to_string(&out).ok().and_then(|s| serde_json::from_str::<WorkerReport>(&s).ok()) {
                Some(rep) => {
                    total.evaluations += rep.evaluations;
                    total.first_index = total.first_index.min(rep.first_index);
                    total.last_index = total.last_index.max(rep.last_index);
                    total.audit_reexecuted += rep.audit_reexecuted;
                    total.audit_mismatches += rep.audit_mismatches;
                    total.run_seconds = total.run_seconds.max(rep.run_seconds);
                    total.stopped_by_deadline |= rep.stopped_by_deadline;
                    total.violations.extend(rep.violations);
                    total.stats.merge(rep.stats);
                }
                None => harness_errors.push(format!("worker {} produced no readable report", w)),
            },
            Some(s) if s.code() == Some(3) => {
                // a simulated process hung; the worker wrote the replay file and left
                let path = std::fs::read_to_string(format!("{}.progress.hang", out)).unwrap_or_default();
                abnormal.push((path, "hang".to_string(), format!("worker {}: a simulated process hung in scenario index {}", w, progress.trim())));
            }
            Some(s) => {
                // died without a word: the scenario it was executing is in <out>.progress.current
                let dir = format!("{}/replays", out_dir());
                let _ = std::fs::create_dir_all(&dir);
                let path = format!("{}/{}-{}-{}-died.json", dir, e.property(), seed, progress.trim());
                match std::fs::copy(format!("{}.progress.current", out), &path) {
                    Ok(_) => abnormal.push((path, "process_died".to_string(), format!("worker {} died ({}) while executing scenario index {}", w, s, progress.trim()))),
                    Err(_) => harness_errors.push(format!("worker {} died ({}) while executing scenario index {}", w, s, progress.trim())),
                }
            }
            None => harness_errors.push(format!("worker {} exceeded the hard watchdog while executing scenario index {}", w, progress.trim())),
        }
    }
    let _ = std::fs::remove_dir_all(&run_dir);
    if total.first_index == u64::MAX {
        total.first_index = 0;
    }
    harness_errors.extend(total.stats.harness_errors.iter().cloned());
    for p in e.required_probes(tier) {
        if total.stats.get(p) == 0 {
            // A run cut short by the soft deadline (slow or busy machine) may legitimately miss a
            // rare probe: say so, but do not fail the check for it.
            if std::env::var("VERIF_COUNT").is_ok() {
                // an explicitly shortened run (the determinism audit, experiments): rare probes may stay at zero
                println!("NOTE reach probe {} stayed at zero in a run of {} scenarios (VERIF_COUNT)", p, count);
            } else if total.stopped_by_deadline || total.evaluations * 4 < count {
                println!("NOTE reach probe {} stayed at zero in a run shortened by the soft deadline ({} of {} scenarios)", p, total.evaluations, count);
            } else {
                harness_errors.push(format!("reach probe {} stayed at zero", p));
            }
        }
    }

    // Known findings: suppress only listed, status=known signatures.
    let known = load_known();
    let mut new_violations: Vec<(String, Violation)> = vec![];
    let mut known_seen = 0usize;
    let mut printed: std::collections::BTreeSet<(String, String)> = Default::default();
    total.violations.sort_by(|a, b| a.0.cmp(&b.0));
    for (path, v) in &total.violations {
        if !printed.insert((v.kind.clone(), v.signature.clone())) {
            continue;
        }
        if let Some(k) = known.findings.iter().find(|k| k.property == e.property() && k.status == "known" && k.signature == v.signature) {
            println!("KNOWN-FINDING: property={} {} [{}] replay={}", e.property(), k.text, v.signature, path);
            known_seen += 1;
        } else {
            new_violations.push((path.clone(), v.clone()));
        }
    }
    for (path, kind, what) in &abnormal {
        if e.hang_or_death_is_violation() {
            // one report per kind is enough (each replay costs a full time-out to re-verify)
            if new_violations.iter().any(|(_, v)| v.kind == *kind) {
                continue;
            }
            new_violations.push((path.clone(), Violation { kind: kind.clone(), signature: kind.clone(), detail: what.clone() }));
        } else {
            harness_errors.push(format!("{} (replay {})", what, path));
        }
    }
    let wall = start.elapsed().as_secs_f64();
    let ev = evidence_json(e, tier, seed, &total, wall, nw, new_violations.len(), known_seen);
    let _ = std::fs::create_dir_all(format!("{}/evidence", out_dir()));
    let ev_path = format!("{}/evidence/{}.json", out_dir(), e.property());
    std::fs::write(&ev_path, serde_json::to_string_pretty(&ev).unwrap()).expect("write evidence");
    println!(
        "acbsim: {} scenarios, {} simulated processes, {} distinct non-trivial, {} abstract states, audit {}/{} mismatches, {:.1}s",
        total.evaluations,
        total.stats.get("sim.processes"),
        total.stats.nontrivial.len(),
        total.stats.states.len(),
        total.audit_mismatches,
        total.audit_reexecuted,
        wall
    );
    // Every reported replay file is re-executed in a fresh OS process and must reproduce.
    for (path, v) in &new_violations {
        let st = Command::new(&exe).args(["replay", path]).stdout(Stdio::null()).stderr(Stdio::null()).status();
        match st {
            Ok(s) if s.code() == Some(EXIT_VIOLATION) => {}
            // a scenario that kills its process does so again (no exit code: signal; 101/134: panic/abort)
            Ok(s) if v.kind == "process_died" && s.code() != Some(EXIT_OK) && s.code() != Some(EXIT_HARNESS) => {}
            other => harness_errors.push(format!("replay of {} in a fresh process did not reproduce ({:?})", path, other.map(|s| s.code()))),
        }
    }
    for (path, v) in &new_violations {
        println!("VIOLATION property={} replay={}", e.property(), path);
        println!("  kind={} signature={}", v.kind, v.signature);
        for l in v.detail.lines().take(12) {
            println!("  {}", l);
        }
    }
    if !new_violations.is_empty() {
        for h in harness_errors.iter().take(20) {
            println!("NOTE harness: {}", h);
        }
        return EXIT_VIOLATION;
    }
    if !harness_errors.is_empty() {
        for h in harness_errors.iter().take(20) {
            println!("HARNESS-ERROR {}", h);
        }
        return EXIT_HARNESS;
    }
    println!("acbsim: property {} held on everything explored (evidence: {})", e.property(), ev_path);
    EXIT_OK
}

fn run_worker_cmd<E: Engine>(e: &E, args: &[String]) -> i32 {
    let tier = Tier::parse(&args[1]).expect("tier");
    let seed: u64 = args[2].parse().unwrap();
    let w: u64 = args[3].parse().unwrap();
    let nw: u64 = args[4].parse().unwrap();
    let count: u64 = args[5].parse().unwrap();
    let soft: u64 = args[6].parse().unwrap();
    let out = &args[7];
    PROGRESS_PATH.with(|p| *p.borrow_mut() = Some(format!("{}.progress", out)));
    let rep = run_worker(e, tier, seed, w, nw, count, soft);
    std::fs::write(out, serde_json::to_string(&rep).unwrap()).expect("write worker report");
    EXIT_OK
}

thread_local! {
    pub static PROGRESS_PATH: std::cell::RefCell<Option<String>> = const { std::cell::RefCell::new(None) };
}

/// What this OS process is executing right now (so that a hang or a death can be attributed).
pub struct Current {
    pub property: String,
    pub engine: String,
    pub base_seed: u64,
    pub index: u64,
    pub scenario_seed: u64,
    pub scenario: Value,
    pub replay_mode: bool,
}

pub static CURRENT: std::sync::Mutex<Option<Current>> = std::sync::Mutex::new(None);

/// Called by run_worker before each scenario so that a dying or hanging worker names its scenario.
pub fn note_progress(index: u64) {
    PROGRESS_PATH.with(|p| {
        if let Some(path) = p.borrow().as_ref() {
            let _ = std::fs::write(path, index.to_string());
        }
    });
}

pub fn note_current(c: Current) {
    PROGRESS_PATH.with(|p| {
        if let Some(path) = p.borrow().as_ref() {
            // the scenario itself, for the driver, should this process die without a word
            let rf = replay_for(&c, "process_died", "the OS process executing this scenario died (abort, stack overflow or signal)");
            let _ = std::fs::write(format!("{}.current", path), serde_json::to_string(&rf).unwrap_or_default());
        }
    });
    *CURRENT.lock().unwrap_or_else(|e| e.into_inner()) = Some(c);
}

fn replay_for(c: &Current, kind: &str, what: &str) -> ReplayFile {
    ReplayFile {
        property: c.property.clone(),
        engine: c.engine.clone(),
        base_seed: c.base_seed,
        index: c.index,
        scenario_seed: c.scenario_seed,
        minimised: false,
        shrink_steps: 0,
        original_size: 0,
        minimised_size: 0,
        violation: Violation { kind: kind.to_string(), signature: kind.to_string(), detail: format!("scenario index {} (seed {}): {}", c.index, c.scenario_seed, what) },
        scenario: c.scenario.clone(),
    }
}

/// A simulated process did not finish: report it with the scenario and leave (the thread cannot be killed).
pub fn on_simulated_process_hang() -> ! {
    let cur = CURRENT.lock().unwrap_or_else(|e| e.into_inner()).take();
    match cur {
        Some(c) if c.replay_mode => {
            println!("VIOLATION property={} replay=(reproduced)\n  kind=hang signature=hang\n  a simulated process did not finish within {} s", c.property, proc::SIM_PROCESS_TIMEOUT.as_secs());
            let _ = std::io::stdout().flush();
            std::process::exit(EXIT_VIOLATION);
        }
        Some(c) => {
            let rf = replay_for(&c, "hang", &format!("a simulated process did not finish within {} s of real time (it normally takes ~0.1 ms)", proc::SIM_PROCESS_TIMEOUT.as_secs()));
            let dir = format!("{}/replays", out_dir());
            let _ = std::fs::create_dir_all(&dir);
            let path = format!("{}/{}-{}-{}-hang.json", dir, c.property, c.base_seed, c.index);
            let _ = std::fs::write(&path, serde_json::to_string_pretty(&rf).unwrap_or_default());
            PROGRESS_PATH.with(|p| {
                if let Some(pp) = p.borrow().as_ref() {
                    let _ = std::fs::write(format!("{}.hang", pp), &path);
                }
            });
            std::process::exit(3);
        }
        None => {
            println!("HARNESS-ERROR a simulated process hung outside any scenario");
            let _ = std::io::stdout().flush();
            std::process::exit(EXIT_HARNESS);
        }
    }
}

fn replay<E: Engine>(e: &E, rf: &ReplayFile) -> i32 {
    let sc: E::Sc = match serde_json::from_value(rf.scenario.clone()) {
        Ok(s) => s,
        Err(err) => {
            println!("HARNESS-ERROR cannot decode scenario: {}", err);
            return EXIT_HARNESS;
        }
    };
    *CURRENT.lock().unwrap_or_else(|e| e.into_inner()) = Some(Current { property: rf.property.clone(), engine: rf.engine.clone(), base_seed: rf.base_seed, index: rf.index, scenario_seed: rf.scenario_seed, scenario: rf.scenario.clone(), replay_mode: true });
    let mut st = Stats::default();
    let out = e.execute(&sc, &mut st);
    println!("replay: property={} engine={} base_seed={} index={} digest={:016x}", rf.property, rf.engine, rf.base_seed, rf.index, out.digest);
    println!("replay: recorded violation kind={} signature={}", rf.violation.kind, rf.violation.signature);
    let same = out.violations.iter().find(|v| v.kind == rf.violation.kind && v.signature == rf.violation.signature);
    match same {
        Some(v) => {
            println!("VIOLATION property={} replay=(reproduced)", rf.property);
            println!("  kind={} signature={}", v.kind, v.signature);
            for l in v.detail.lines() {
                println!("  {}", l);
            }
            println!("  identical_detail_to_recorded={}", v.detail == rf.violation.detail);
            EXIT_VIOLATION
        }
        None => {
            if out.violations.is_empty() {
                println!("replay: NOT REPRODUCED (no violation on this tree)");
                EXIT_OK
            } else {
                for v in &out.violations {
                    println!("VIOLATION property={} replay=(different class) kind={} signature={}\n  {}", rf.property, v.kind, v.signature, v.detail);
                }
                EXIT_VIOLATION
            }
        }
    }
}

fn audit<E: Engine>(e: &E, n: u64) -> i32 {
    // N seeds, each executed in this process twice; the driver calls us at worker counts 1 and 16
    // and compares the printed digests across processes.
    let seed = base_seed();
    let mut mism = 0;
    let mut lines = vec![];
    for idx in 0..n {
        let s = prng::mix(seed, idx, e.lane());
        let sc = e.generate(s, idx, Tier::Quick);
        let mut st = Stats::default();
        let a = e.execute(&sc, &mut st);
        let b = e.execute(&sc, &mut st);
        if a.digest != b.digest {
            mism += 1;
            println!("mismatch at index {}", idx);
            if e.property() == "C09" {
                let v = serde_json::to_value(&sc).unwrap();
                c09::debug_nondeterminism(&serde_json::from_value(v).unwrap());
            }
        }
        lines.push(format!("{} {:016x}", idx, a.digest));
    }
    let mut h = prng::fnv64(b"audit");
    for l in &lines {
        h = prng::fnv64_add(h, l.as_bytes());
    }
    println!("audit property={} seeds={} in_process_mismatches={} combined_digest={:016x}", e.property(), n, mism, h);
    if mism > 0 {
        EXIT_HARNESS
    } else {
        EXIT_OK
    }
}

fn args_need_warm_up() -> bool {
    matches!(std::env::args().nth(1).as_deref(), Some("worker") | Some("replay") | Some("replay-exec") | Some("audit") | Some("firstrun"))
}

fn main() {
    proc::install_panic_hook();
    if args_need_warm_up() {
        c09::warm_up();
        c12::warm_up();
        c13::warm_up();
        c14::warm_up();
    }
    let args: Vec<String> = std::env::args().skip(1).collect();
    if args.is_empty() {
        eprintln!("usage: acbsim run <PROPERTY> <quick|thorough> | replay <file> | audit <PROPERTY> <N>");
        std::process::exit(EXIT_HARNESS);
    }
    let code = match args[0].as_str() {
        "run" => {
            let tier = Tier::parse(args.get(2).map(|s| s.as_str()).unwrap_or("quick")).unwrap_or(Tier::Quick);
            dispatch!(args[1].as_str(), e => run_driver(e, tier))
        }
        "worker" => dispatch!(args[1].as_str(), e => run_worker_cmd(e, &args[1..])),
        "replay" | "replay-exec" => {
            let text = std::fs::read_to_string(&args[1]).unwrap_or_else(|e| {
                println!("HARNESS-ERROR cannot read {}: {}", args[1], e);
                std::process::exit(EXIT_HARNESS);
            });
            let rf: ReplayFile = serde_json::from_str(&text).unwrap_or_else(|e| {
                println!("HARNESS-ERROR cannot parse {}: {}", args[1], e);
                std::process::exit(EXIT_HARNESS);
            });
            let prop = rf.property.clone();
            if rf.violation.kind == "process_died" && args[0] == "replay" {
                // The scenario kills the process that executes it: execute it in a child and report.
                let exe = std::env::current_exe().expect("current_exe");
                let st = Command::new(&exe).args(["replay-exec", &args[1]]).status();
                match st {
                    Ok(s) if s.code() == Some(EXIT_OK) => {
                        println!("replay: NOT REPRODUCED (the scenario completed without killing its process)");
                        EXIT_OK
                    }
                    Ok(s) if s.code() == Some(EXIT_VIOLATION) => EXIT_VIOLATION,
                    Ok(s) => {
                        println!("VIOLATION property={} replay=(reproduced)\n  kind=process_died signature=process_died\n  the process executing the scenario died again: {}", prop, s);
                        EXIT_VIOLATION
                    }
                    Err(e) => {
                        println!("HARNESS-ERROR cannot run child: {}", e);
                        EXIT_HARNESS
                    }
                }
            } else {
                dispatch!(prop.as_str(), e => replay(e, &rf))
            }
        }
        "audit" => {
            let n: u64 = args.get(2).and_then(|s| s.parse().ok()).unwrap_or(200);
            dispatch!(args[1].as_str(), e => audit(e, n))
        }
        "selftest-simfs" => {
            let n: u64 = args.get(1).and_then(|s| s.parse().ok()).unwrap_or(2000);
            selftest::run(n)
        }
        "firstrun" => {
            let sc = c09::generate(prng::mix(base_seed(), 0, 9), 6);
            c09::debug_nondeterminism(&sc);
            0
        }
        "show" => {
            // acbsim show <PROPERTY> <index>: print the generated scenario
            let idx: u64 = args[2].parse().unwrap();
            dispatch!(args[1].as_str(), e => {
                let s = prng::mix(base_seed(), idx, e.lane());
                let sc = e.generate(s, idx, Tier::Quick);
                let v: Value = e.sample(&sc);
                println!("{}", serde_json::to_string_pretty(&v).unwrap());
                0
            })
        }
        _ => {
            eprintln!("unknown command");
            EXIT_HARNESS
        }
    };
    let _ = std::io::stdout().flush();
    std::process::exit(code);
}
