//! hashsim — C09 "same input, same output, byte for byte".
//! The schedule space is the per-process hash seed: every std HashMap/HashSet
//! in a simulated process draws its keys from the simulator (interposed
//! getrandom), so K simulated processes with K seeds are K iteration orders
//! of every container in the real application.

use crate::common::*;
use crate::interpose::with_world;
use crate::prng::{fnv64, fnv64_add, Rng};
use crate::proc::{block_on, run_process, ProcEnv};
use crate::simfs::Knobs;
use serde::{Deserialize, Serialize};
use serde_json::{json, Value};
use std::collections::{BTreeMap, BTreeSet, HashSet};
use time::{Date, Duration, Month};

pub const HEADER: [&str; 15] = [
    "security",
    "trade date",
    "settlement date",
    "action",
    "shares",
    "amount/share",
    "commission",
    "currency",
    "exchange rate",
    "commission currency",
    "commission exchange rate",
    "superficial loss",
    "split ratio",
    "affiliate",
    "memo",
];
const C_SEC: usize = 0;
const C_TRADE: usize = 1;
const C_SETTLE: usize = 2;
const C_ACTION: usize = 3;
const C_SHARES: usize = 4;
const C_AMT: usize = 5;
const C_COMM: usize = 6;
const C_CUR: usize = 7;
const C_FX: usize = 8;
const C_CCUR: usize = 9;
const C_CFX: usize = 10;
const C_SFL: usize = 11;
const C_SPLIT: usize = 12;
const C_AFF: usize = 13;
const C_MEMO: usize = 14;

#[derive(Clone, Debug, Serialize, Deserialize, PartialEq)]
pub struct CsvFile {
    pub name: String,
    /// Extra columns appended after the 15 standard ones (a repeated recognised column such as a
    /// second "memo"/"commission", or an unknown one); every row then carries one more cell each.
    #[serde(default)]
    pub extra_cols: Vec<String>,
    pub rows: Vec<Vec<String>>,
    /// Non-zero: the columns are written in a permuted order and the header names in another
    /// case / with padding (the layout is a function of this seed).
    #[serde(default)]
    pub layout_seed: u64,
    /// lines end in CR LF
    #[serde(default)]
    pub crlf: bool,
    /// the file starts with a UTF-8 byte-order mark
    #[serde(default)]
    pub bom: bool,
}

impl CsvFile {
    /// The same file with affiliate cells spelled differently from row to row.
    pub fn with_affiliate_spellings(&self) -> CsvFile {
        let mut f = self.clone();
        for (i, row) in f.rows.iter_mut().enumerate() {
            let a = row[C_AFF].clone();
            if a.is_empty() {
                continue;
            }
            row[C_AFF] = match (fnv64(self.name.as_bytes()).wrapping_add(i as u64 * 7 + (i as u64 / 50) * 3)) % 5 {
                0 => a,
                1 => a.to_lowercase(),
                2 => a.to_uppercase(),
                3 => format!("  {} ", a),
                _ => a.replace("(R)", "(r)"),
            };
        }
        f
    }

    pub fn text(&self) -> String {
        let mut names: Vec<String> = HEADER.iter().map(|h| h.to_string()).collect();
        names.extend(self.extra_cols.iter().cloned());
        let mut order: Vec<usize> = (0..names.len()).collect();
        if self.layout_seed != 0 {
            let mut r = Rng::new(self.layout_seed);
            r.shuffle(&mut order);
            for n in names.iter_mut() {
                // an optional column whose header carries an annotation is not recognised (and dropped)
                if matches!(n.as_str(), "commission currency" | "commission exchange rate" | "memo" | "superficial loss") && r.below(10) == 0 {
                    *n = format!("{} {}", n, if r.chance(1, 2) { "(ISO)" } else { "[x]" });
                    continue;
                }
                *n = match r.below(4) {
                    0 => n.clone(),
                    1 => n.to_uppercase(),
                    2 => format!(" {} ", n),
                    _ => {
                        let mut c = n.chars();
                        match c.next() {
                            Some(f) => f.to_uppercase().collect::<String>() + c.as_str(),
                            None => String::new(),
                        }
                    }
                };
            }
        }
        let nl = if self.crlf { "\r\n" } else { "\n" };
        let mut s = if self.bom { "\u{feff}".to_string() } else { String::new() };
        s.push_str(&order.iter().map(|i| names[*i].clone()).collect::<Vec<_>>().join(","));
        s.push_str(nl);
        for r in &self.rows {
            // RFC 4180 quoting for cells that need it (memos with commas, quotes, line breaks)
            let cells: Vec<String> = order
                .iter()
                .map(|i| r.get(*i).cloned().unwrap_or_default())
                .map(|c| if c.contains(',') || c.contains('"') || c.contains('\n') { format!("\"{}\"", c.replace('"', "\"\"")) } else { c })
                .collect();
            s.push_str(&cells.join(","));
            s.push_str(nl);
        }
        s
    }
}

#[derive(Clone, Copy, Debug, Serialize, Deserialize, PartialEq, Eq, PartialOrd, Ord)]
pub enum Mode {
    Text,
    TextFull,
    TotalCosts,
    CsvDir,
    TotalCostsCsvDir,
    Summary,
    SummaryAnnual,
    /// --summarize-before together with --csv-output-dir and --print-full-values
    SummaryCsvDir,
    /// --total-costs with --print-full-values on the console
    TotalCostsFull,
}

pub const ALL_MODES: [Mode; 9] = [Mode::Text, Mode::TextFull, Mode::TotalCosts, Mode::CsvDir, Mode::TotalCostsCsvDir, Mode::Summary, Mode::SummaryAnnual, Mode::SummaryCsvDir, Mode::TotalCostsFull];

#[derive(Clone, Debug, Serialize, Deserialize, PartialEq)]
pub struct Sc {
    pub files: Vec<CsvFile>,
    pub modes: Vec<Mode>,
    pub symbol_base: Vec<String>,
    pub summarize_before: String,
    pub today: String,
    pub hash_seeds: Vec<u64>,
    pub max_read: usize,
    /// Some: some USD rows carry no rate; the K processes of a mode then run one
    /// after the other over ONE simulated ~/.acb, so the first downloads from the
    /// simulated Bank of Canada and the later ones find its cache ("the same
    /// command twice").
    #[serde(default)]
    pub fx: Option<FxSpec>,
    /// End-to-end lane: the same input and modes are also run by the REAL acb binary (clap layer,
    /// main, home-directory look-up) in real OS processes whose entropy, clock and pid the
    /// simulator owns through an LD_PRELOAD seam; the first three hash seeds are used.
    #[serde(default)]
    pub e2e: bool,
    /// End-to-end lane only (each real process has its own affiliate table): affiliate cells are
    /// spelled differently from row to row (case, padding, "(r)"/"(R)"); the first spelling seen
    /// names the affiliate in the output, in every process alike.
    #[serde(default)]
    pub e2e_affiliate_spellings: bool,
    /// End-to-end lane only (the verbose flag is a process-global of the library): run with --verbose,
    /// whose extra lines are part of standard output.
    #[serde(default)]
    pub e2e_verbose: bool,
    /// Every process of this input meets the same full disk: after this many bytes written to output
    /// files the writes fail (simulated processes: ENOSPC after N bytes in total; real processes: a
    /// file-size limit of N bytes per file, EFBIG). The runs fail - alike: what they printed and what
    /// they left in the output directory must still not depend on the process.
    #[serde(default)]
    pub out_disk_full_after: Option<u64>,
}

#[derive(Clone, Debug, Serialize, Deserialize, PartialEq)]
pub struct FxSpec {
    pub cal: crate::fx::Calendar,
    pub format: crate::fx::JsonFormat,
    pub published_today: bool,
    /// Some(date): every process starts from the same HAND-EDITED cache instead of sharing an
    /// evolving one: the year file of that date ends there and the user has typed their own rate
    /// for it (the tool's "no rate yet" message tells them to). Rows dated later make the run
    /// download the year, so what the date gets depends on the order of look-ups - which must be
    /// the file order, whatever the hash seed.
    #[serde(default)]
    pub hand_edited_cache_until: Option<String>,
    /// Every process starts from an EMPTY cache (so each downloads, as with a wiped ~/.acb) and runs
    /// with the library's verbose flag on, whose lines go to standard output. (Cold and warm runs are
    /// not compared under --verbose: "Fetching <url>" is printed by the run that downloads.)
    #[serde(default)]
    pub verbose_cold: bool,
}

pub fn d(y: i32, m: u8, day: u8) -> Date {
    Date::from_calendar_date(y, Month::try_from(m).unwrap(), day).unwrap()
}

pub fn parse_date(s: &str) -> Date {
    acb::util::date::parse_standard_date(s).expect("harness date")
}

const SECS: [&str; 11] = ["FOO", "BAR", "XYZ", "VFV.TO", "QQQ", "ZAG", "MMM", "AAPL", "T", "XIC.TO", "BNS"];
const AFFS: [&str; 10] = ["Default", "Default (R)", "Spouse", "Spouse (R)", "Kid", "Trust", "Holdco Inc.", "O'Neil-2", "Kid (R)", "M\u{e8}re"];

struct AfState {
    shares: i64, // in thousandths
    last_price: i64,
}

fn shares_str(milli: i64) -> String {
    if milli % 1000 == 0 {
        format!("{}", milli / 1000)
    } else {
        format!("{}.{:03}", milli / 1000, milli % 1000).trim_end_matches('0').to_string()
    }
}

fn cents_str(c: i64) -> String {
    format!("{}.{:02}", c / 100, c % 100)
}

/// One input in 80 is LARGE: a security with several hundred rows next to a dozen one-row
/// securities (anything that only happens above a size threshold - batching, a worker pool - is
/// out of reach of the ordinary inputs).
fn generate_large(r: &mut Rng, k_seeds: usize) -> Sc {
    let mut rows: Vec<Vec<String>> = vec![];
    let mk = |sec: &str, day: Date, action: &str, qty: i64, price: i64| -> Vec<String> {
        let mut row = vec![String::new(); HEADER.len()];
        row[C_SEC] = sec.to_string();
        row[C_TRADE] = day.to_string();
        row[C_SETTLE] = (day + Duration::days(2)).to_string();
        row[C_ACTION] = action.to_string();
        row[C_SHARES] = shares_str(qty);
        row[C_AMT] = cents_str(price);
        row
    };
    let n = r.range(420, 700);
    let mut day = d(2018, 1, 2);
    let mut held = 0i64;
    for i in 0..n {
        day += Duration::days(r.range(0, 2));
        if held > 20_000 && r.chance(1, 2) {
            let q = r.range(1, 10) * 1000;
            rows.push(mk("AAA", day, "Sell", q, r.range(900, 1500)));
            held -= q;
        } else {
            let q = r.range(1, 20) * 1000;
            rows.push(mk("AAA", day, "Buy", q, r.range(900, 1500)));
            held += q;
        }
        if i % 50 == 0 {
            rows.last_mut().unwrap()[C_MEMO] = format!("batch {}", i / 50);
        }
    }
    for (i, sec) in ["B1", "C2", "D3", "E4", "F5", "G6", "H7", "I8", "J9", "K10", "L11", "M12"].iter().enumerate() {
        rows.push(mk(sec, d(2018, 3, 1) + Duration::days(i as i64), "Buy", 5000, 1000 + i as i64));
    }
    let mut hash_seeds = vec![];
    for _ in 0..k_seeds {
        hash_seeds.push(r.next_u64());
    }
    let variant = r.below(3);
    let mut files = vec![];
    match variant {
        0 => files.push(CsvFile { name: "big.csv".to_string(), extra_cols: vec![], rows, layout_seed: 0, crlf: false, bom: false }),
        1 => {
            // two big files (each well over 32 KiB) holding the halves of the history, affiliates named
            // in every row - the end-to-end lane spells them differently from row to row and file to file
            let mut more = vec![];
            let mut day2 = d(2020, 1, 2);
            for i in 0..r.range(700, 900) {
                day2 += Duration::days(r.range(0, 1));
                let mut row = mk(if i % 3 == 0 { "BBB" } else { "AAA" }, day2, "Buy", r.range(1, 20) * 1000, r.range(900, 1500));
                row[C_MEMO] = "second export, long enough a memo to make the file big".to_string();
                more.push(row);
            }
            for (i, row) in rows.iter_mut().chain(more.iter_mut()).enumerate() {
                row[C_AFF] = (*["Spouse", "Kid", "Trust", "Default"].get(i % 4).unwrap()).to_string();
                if row[C_MEMO].is_empty() {
                    row[C_MEMO] = "first export, long enough a memo to make the file big".to_string();
                }
            }
            files.push(CsvFile { name: "big1.csv".to_string(), extra_cols: vec![], rows, layout_seed: 0, crlf: false, bom: false });
            files.push(CsvFile { name: "big2.csv".to_string(), extra_cols: vec![], rows: more, layout_seed: 0, crlf: false, bom: false });
        }
        _ => {
            // seventy affiliates, each with two purchases (the end-to-end lane spells the second one differently)
            let mut many = vec![];
            // (all seventy once, then all seventy again: by then a bounded table has turned over)
            for k in 0..2 {
                for a in 0..70 {
                    let mut row = mk("AAA", d(2019, 1, 2) + Duration::days(k * 100 + a), "Buy", 1000 * (a + 1), 1000 + a);
                    row[C_AFF] = format!("Acct{:02}", a);
                    many.push(row);
                }
            }
            files.push(CsvFile { name: "accounts.csv".to_string(), extra_cols: vec![], rows: many, layout_seed: 0, crlf: false, bom: false });
        }
    }
    Sc {
        files,
        modes: vec![Mode::Text, Mode::TotalCostsCsvDir, Mode::Summary],
        symbol_base: vec![],
        summarize_before: d(2019, 6, 1).to_string(),
        today: d(2023, 6, 15).to_string(),
        hash_seeds,
        max_read: usize::MAX,
        fx: None,
        e2e: variant != 0 || r.chance(1, 4),
        e2e_affiliate_spellings: variant != 0,
        e2e_verbose: false,
        out_disk_full_after: None,
    }
}

pub fn generate(seed: u64, k_seeds: usize) -> Sc {
    let mut r = Rng::new(seed);
    if r.chance(1, 80) {
        return generate_large(&mut r, k_seeds);
    }
    // mostly 1-4 securities; sometimes many (6-10), most of them tiny and error-prone
    let many = r.chance(1, 14);
    let n_sec = if many { r.range(6, 10) as usize } else { r.weighted(&[2, 4, 3, 2]) + 1 };
    let mut secs: Vec<&str> = SECS.to_vec();
    r.shuffle(&mut secs);
    secs.truncate(n_sec);
    // Securities are case-sensitive strings: names that differ only in case are
    // distinct securities that collide under any case-folding key.
    let mut case_variants = false;
    if n_sec >= 2 && r.chance(1, 4) {
        case_variants = true;
        let variants: &[(&str, &[&str])] = &[("FOO", &["Foo", "foo"]), ("BAR", &["Bar", "bar"]), ("XYZ", &["xyz"]), ("VFV.TO", &["vfv.to", "Vfv.To"]), ("QQQ", &["qqq"]), ("ZAG", &["Zag", "zag"])];
        let base = secs[0];
        if let Some((_, vs)) = variants.iter().find(|(b, _)| *b == base) {
            secs[1] = *r.pick(vs);
            if n_sec >= 3 && vs.len() >= 2 && r.chance(1, 2) {
                secs[2] = vs[1];
            }
        }
    }
    // Exchange codes that are numbers, next to one that only starts with digits: numeric order,
    // text order and "natural" order all disagree on these.
    if n_sec >= 2 && r.chance(1, 10) {
        let nums = ["700", "1211", "1COV", "9988", "2B", "05"];
        let k = secs.len().min(3 + r.below(2) as usize).min(nums.len());
        let mut pool: Vec<&str> = nums.to_vec();
        r.shuffle(&mut pool);
        for i in 0..k {
            secs[i] = pool[i];
        }
    }
    // Security names are free text: some contain characters that are awkward in a file name
    // (--csv-output-dir names one file per security after it).
    if r.chance(1, 6) {
        let i = secs.len() - 1;
        secs[i] = *r.pick(&["RY:TO", "BRK/B", "A*B", "WHY?", "A|B", "T<X>"]);
    }
    // 1-4 affiliates, now and then up to 8
    let n_aff = if r.chance(1, 12) { r.range(5, 8) as usize } else { r.weighted(&[2, 3, 3, 2]) + 1 };
    let mut affs: Vec<&str> = AFFS[1..].to_vec();
    r.shuffle(&mut affs);
    affs.truncate(n_aff - 1);
    affs.insert(0, "Default");
    // mostly 2017 and later (daily series); a quarter of the inputs lie in the years of the noon
    // series, whose published values have four or five decimals and may end in 0
    let start_year = if r.chance(1, 4) { r.range(2011, 2015) as i32 } else { r.range(2017, 2022) as i32 };
    let span_days = *r.pick(&[120i64, 365, 500, 800, 1000]);
    let settle_off = *r.pick(&[0i64, 1, 2, 2, 3]);
    let usd = r.chance(1, 2);
    let fx_mode = usd && r.chance(1, 2);
    let mut symbol_base = vec![];
    let mut all_rows: Vec<(Date, Vec<String>)> = vec![];

    for sec in &secs {
        let mut st: BTreeMap<&str, AfState> = BTreeMap::new();
        for a in &affs {
            st.insert(a, AfState { shares: 0, last_price: 2000 });
        }
        // (an opening position for one of several spellings that differ only in case: any
        // case-folding match of --symbol-base has several candidates)
        if r.chance(1, 6) || (case_variants && r.chance(1, 3)) {
            let n = r.range(1, 40);
            st.get_mut("Default").unwrap().shares = n * 1000;
            symbol_base.push(format!("{}:{}:{}", sec, n, cents_str(n * r.range(500, 9000))));
        }
        let plain_row = |dd: Date, action: &str, qty: &str, price: &str| -> (Date, Vec<String>) {
            let mut row = vec![String::new(); HEADER.len()];
            row[C_SEC] = sec.to_string();
            row[C_TRADE] = dd.to_string();
            row[C_SETTLE] = (dd + Duration::days(settle_off)).to_string();
            row[C_ACTION] = action.to_string();
            row[C_SHARES] = qty.to_string();
            row[C_AMT] = price.to_string();
            (dd, row)
        };
        let first_day = d(start_year, 1, 1) + Duration::days(r.range(0, 200));
        if many && *sec != secs[0] && r.chance(1, 2) {
            // a security that only sells: an error ("more than the current holdings"), nothing else
            all_rows.push(plain_row(first_day, "Sell", "5", "10.00"));
            continue;
        }
        if r.chance(1, 15) {
            // a security whose only recorded event is a split of an opening position
            if !symbol_base.iter().any(|b| b.starts_with(&format!("{}:", sec))) {
                symbol_base.push(format!("{}:{}:{}", sec, 10, "250.00"));
            }
            let (dd, mut row) = plain_row(first_day, "Split", "", "");
            row[C_SPLIT] = "2-for-1".to_string();
            if r.chance(1, 2) {
                row[C_MEMO] = "split".to_string();
            }
            all_rows.push((dd, row));
            continue;
        }
        let n_events = if many { r.range(1, 4) } else { r.range(3, 16) };
        let mut day = first_day;
        let end = d(start_year, 1, 1) + Duration::days(span_days);
        let mut last_global_split: Option<Date> = None;
        let mut force_tie_next = false;
        for _ in 0..n_events {
            let gap = match r.weighted(&[3, 3, 5, 5, 2, 2]) {
                0 => 0,
                1 => 1,
                2 => r.range(2, 5),
                3 => r.range(6, 29),
                4 => r.range(30, 45),
                _ => r.range(46, 250),
            };
            day += Duration::days(gap);
            if day > end {
                break;
            }
            let mut row = vec![String::new(); HEADER.len()];
            row[C_SEC] = sec.to_string();
            row[C_TRADE] = day.to_string();
            row[C_SETTLE] = (day + Duration::days(settle_off)).to_string();
            let holders: Vec<&str> = affs.iter().copied().filter(|a| st[a].shares > 0).collect();
            let mut kind = r.weighted(&[40, 30, 8, 5, 3, 6]);
            if force_tie_next {
                kind = *r.pick(&[2usize, 5]);
                force_tie_next = false;
            }
            if holders.is_empty() && kind != 0 && kind != 5 {
                kind = 0;
            }
            let near_split = |dd: Date, last: &Option<Date>| last.map(|l| (dd - l).whole_days().abs() <= 1).unwrap_or(false);
            let mut sold_by: Option<&str> = None;
            let mut equal_then_oversell: Option<(&str, i64, &str, i64)> = None;
            match kind {
                0 | 5 => {
                    // Buy (5 = zero-cost buy: keeps the ACB, creates a tied day)
                    let a = *r.pick(&affs);
                    let qty = if r.chance(1, 8) { r.range(1, 40) * 1000 + r.range(1, 999) } else { r.range(1, 60) * 1000 };
                    let price = if kind == 5 { 0 } else { r.range(500, 12000) };
                    row[C_ACTION] = (*r.pick(&["Buy", "buy", "BUY"])).to_string();
                    row[C_SHARES] = shares_str(qty);
                    row[C_AMT] = cents_str(price);
                    if kind == 0 && r.chance(1, 2) {
                        row[C_COMM] = cents_str(r.range(0, 999));
                    }
                    let s = st.get_mut(a).unwrap();
                    s.shares += qty;
                    if price > 0 {
                        s.last_price = price;
                    }
                    set_aff(&mut row, a, &mut r);
                    if kind == 0 && r.chance(1, 3) {
                        force_tie_next = true;
                    }
                    if affs.len() >= 3 && r.chance(1, 12) {
                        // another affiliate tops up to exactly the same holding, then a third one oversells
                        let others: Vec<&str> = affs.iter().copied().filter(|x| *x != a).collect();
                        let b = others[0];
                        let c = others[1];
                        let diff = st[a].shares - st[b].shares;
                        if diff > 0 {
                            equal_then_oversell = Some((b, diff, c, st[c].shares + 1000 * r.range(1, 5)));
                            st.get_mut(b).unwrap().shares += diff;
                            st.get_mut(c).unwrap().shares = 0;
                        }
                    }
                }
                1 => {
                    let a = *r.pick(&holders);
                    let have = st[a].shares;
                    let oversell = r.chance(1, 40);
                    let qty = if oversell {
                        have + 1000
                    } else if r.chance(1, 4) {
                        have
                    } else {
                        (r.range(1, (have / 1000).max(1)) * 1000).min(have)
                    };
                    let base = st[a].last_price;
                    let price = (base * r.range(40, 150) / 100).max(1);
                    row[C_ACTION] = "Sell".to_string();
                    row[C_SHARES] = shares_str(qty);
                    row[C_AMT] = cents_str(price);
                    if r.chance(1, 2) {
                        row[C_COMM] = cents_str(r.range(0, 999));
                    }
                    if r.chance(1, 30) {
                        // a declared superficial loss: forced ("!"), or not (then it must match the computed one)
                        row[C_SFL] = format!("-{}{}", cents_str(r.range(1, 5000)), if r.chance(2, 3) { "!" } else { "" });
                    }
                    st.get_mut(a).unwrap().shares = (have - qty).max(0);
                    set_aff(&mut row, a, &mut r);
                    if !oversell {
                        sold_by = Some(a);
                    }
                }
                2 => {
                    // Split
                    let global = r.chance(3, 4);
                    if global {
                        if affs.iter().any(|_| false) {
                            unreachable!();
                        }
                        row[C_ACTION] = "Split".to_string();
                        let (post, pre) = *r.pick(&[(2i64, 1i64), (3, 1), (3, 2), (2, 1), (1, 2)]);
                        let ok_reverse = st.values().all(|s| (s.shares * post) % (pre * 1000) == 0);
                        let (post, pre) = if post < pre && !ok_reverse && !r.chance(1, 10) { (2, 1) } else { (post, pre) };
                        row[C_SPLIT] = format!("{}-for-{}", post, pre);
                        for s in st.values_mut() {
                            s.shares = s.shares * post / pre;
                            s.last_price = (s.last_price * pre / post).max(1);
                        }
                        last_global_split = Some(day);
                    } else {
                        if near_split(day, &last_global_split) && !r.chance(1, 10) {
                            day += Duration::days(3);
                            row[C_TRADE] = day.to_string();
                            row[C_SETTLE] = (day + Duration::days(settle_off)).to_string();
                        }
                        let a = *r.pick(&holders);
                        row[C_ACTION] = "Split".to_string();
                        row[C_SPLIT] = "2-for-1".to_string();
                        row[C_AFF] = a.to_string();
                        let s = st.get_mut(a).unwrap();
                        s.shares *= 2;
                        s.last_price = (s.last_price / 2).max(1);
                    }
                }
                3 => {
                    // RoC
                    let nonreg: Vec<&str> = holders.iter().copied().filter(|a| !a.contains("(R)") || r.chance(1, 30)).collect();
                    if nonreg.is_empty() {
                        continue;
                    }
                    let a = *r.pick(&nonreg);
                    row[C_ACTION] = "RoC".to_string();
                    row[C_AMT] = cents_str(*r.pick(&[0i64, 1, 2, 5, 10]));
                    set_aff(&mut row, a, &mut r);
                }
                _ => {
                    // manual SfLA
                    // (rarely on a registered affiliate: an error)
                    let nonreg: Vec<&str> = holders.iter().copied().filter(|a| !a.contains("(R)") || r.chance(1, 20)).collect();
                    if nonreg.is_empty() {
                        continue;
                    }
                    let a = *r.pick(&nonreg);
                    row[C_ACTION] = "SfLA".to_string();
                    row[C_SHARES] = shares_str(r.range(1, 20) * 1000);
                    row[C_AMT] = cents_str(r.range(1, 500));
                    set_aff(&mut row, a, &mut r);
                }
            }
            if usd && matches!(row[C_ACTION].to_lowercase().as_str(), "buy" | "sell" | "roc") && r.chance(1, 2) {
                row[C_CUR] = "USD".to_string();
                row[C_FX] = if fx_mode && r.chance(2, 3) { String::new() } else { format!("1.{:04}", r.range(1000, 4500)) };
                if !row[C_COMM].is_empty() && r.chance(1, 3) {
                    row[C_CCUR] = "CAD".to_string();
                }
            } else if r.chance(1, 20) && matches!(row[C_ACTION].to_lowercase().as_str(), "buy" | "sell" | "roc") {
                // another currency always carries its own rate
                row[C_CUR] = (*r.pick(&["EUR", "GBP", "eur"])).to_string();
                row[C_FX] = format!("1.{:04}", r.range(3000, 7000));
                if !row[C_COMM].is_empty() && r.chance(1, 2) {
                    row[C_CCUR] = (*r.pick(&["CAD", "EUR"])).to_string();
                    if row[C_CCUR] != "CAD" {
                        row[C_CFX] = format!("1.{:04}", r.range(3000, 7000));
                    }
                }
            } else if r.chance(1, 6) && matches!(row[C_ACTION].to_lowercase().as_str(), "buy" | "sell") {
                row[C_CUR] = "CAD".to_string();
                if !row[C_COMM].is_empty() && usd && r.chance(1, 3) {
                    row[C_CCUR] = "USD".to_string();
                    row[C_CFX] = format!("1.{:04}", r.range(1000, 4500));
                }
            }
            if r.chance(1, 60) {
                // a very long memo (tables wrap it)
                row[C_MEMO] = format!("{} end", "transfer in kind from the old account, see statement page 3; ".repeat(r.range(4, 12) as usize));
            } else if r.chance(1, 4) {
                row[C_MEMO] = (*r.pick(&["note", "drip", "vest", "rebalance to target", "tax loss harvest - see advisor notes", "lot 3, per advisor", "said \"hold\"", "line one\nline two", "r\u{e9}\u{e9}quilibrage \u{2014} \u{65e5}\u{672c}"])).to_string();
            }
            all_rows.push((day, row));
            if let Some((b, diff, c, q)) = equal_then_oversell {
                let (dd, mut r1) = plain_row(day, "Buy", &shares_str(diff), "10.00");
                r1[C_AFF] = b.to_string();
                all_rows.push((dd, r1));
                let (dd, mut r2) = plain_row(day + Duration::days(1), "Sell", &shares_str(q), "10.00");
                r2[C_AFF] = c.to_string();
                all_rows.push((dd, r2));
            }
            // Shapes around a sale (the 30-day windows of a possible loss):
            if let Some(seller) = sold_by {
                let others: Vec<&str> = affs.iter().copied().filter(|x| *x != seller).collect();
                let mk = |dd: Date, action: &str, qty: i64, price: i64, who: &str| -> (Date, Vec<String>) {
                    let mut row = vec![String::new(); HEADER.len()];
                    row[C_SEC] = sec.to_string();
                    row[C_TRADE] = dd.to_string();
                    row[C_SETTLE] = (dd + Duration::days(settle_off)).to_string();
                    row[C_ACTION] = action.to_string();
                    row[C_SHARES] = shares_str(qty);
                    row[C_AMT] = cents_str(price);
                    row[C_AFF] = who.to_string();
                    (dd, row)
                };
                if !others.is_empty() && r.chance(1, 8) {
                    // another affiliate opened and closed a fractional position shortly before the sale
                    let b = *r.pick(&others);
                    let q = r.range(1, 9) * 1000 + *r.pick(&[500i64, 250, 125]);
                    let p = st[b].last_price.max(100);
                    all_rows.push(mk(day - Duration::days(6), "Buy", q, p, b));
                    all_rows.push(mk(day - Duration::days(5), "Sell", q, p, b));
                }
                if others.len() >= 2 && r.chance(1, 12) {
                    // two other affiliates each sell a little more than they hold, within the 30 days after the sale
                    let mut o = others.clone();
                    r.shuffle(&mut o);
                    for (i, b) in o.iter().take(2).enumerate() {
                        let q = st[*b].shares + 1000 * r.range(1, 3);
                        let p = st[*b].last_price.max(100);
                        all_rows.push(mk(day + Duration::days(2 + i as i64), "Sell", q, p, b));
                        st.get_mut(*b).unwrap().shares = 0;
                    }
                }
            }
        }
    }

    // Lay the rows out in 1..3 files; order inside a file is sorted, interleaved or shuffled.
    match r.below(3) {
        0 => all_rows.sort_by(|a, b| a.0.cmp(&b.0)),
        1 => {}
        _ => {
            // shuffle, but keep the relative order of rows of the same security (the read index tie-breaks same-day rows)
            let mut idx: Vec<usize> = (0..all_rows.len()).collect();
            r.shuffle(&mut idx);
            let mut per_sec: BTreeMap<String, Vec<(Date, Vec<String>)>> = BTreeMap::new();
            for row in all_rows.iter() {
                per_sec.entry(row.1[C_SEC].clone()).or_default().push(row.clone());
            }
            let mut cursors: BTreeMap<String, usize> = BTreeMap::new();
            let order: Vec<String> = idx.iter().map(|i| all_rows[*i].1[C_SEC].clone()).collect();
            let mut out = vec![];
            for s in order {
                let c = cursors.entry(s.clone()).or_insert(0);
                out.push(per_sec[&s][*c].clone());
                *c += 1;
            }
            all_rows = out;
        }
    }
    // Opening positions: sometimes the same symbol twice (the later one counts), padded, or for a
    // symbol that has no transactions.
    if !symbol_base.is_empty() && r.chance(1, 6) {
        let first = symbol_base[0].clone();
        let sym = first.split(':').next().unwrap_or("FOO").to_string();
        match r.below(3) {
            0 => symbol_base.push(format!("{}:{}:{}", sym, r.range(1, 40), cents_str(r.range(500, 90000)))),
            1 => symbol_base[0] = format!(" {}", first),
            _ => {
                // opening positions for symbols that never trade (two or three of them)
                symbol_base.push("NOPE:3:30.00".to_string());
                symbol_base.push("IDLE:7:140.00".to_string());
                if r.chance(1, 2) {
                    symbol_base.push("ZZZ.TO:1:1.00".to_string());
                }
            }
        }
    }
    // One input in forty carries a malformed cell or two (the run stops with a diagnostic).
    if r.chance(1, 40) && !all_rows.is_empty() {
        for _ in 0..r.range(1, 2) {
            let i = r.below(all_rows.len() as u64) as usize;
            match r.below(8) {
                0 => all_rows[i].1[C_SHARES] = "abc".to_string(),
                1 => all_rows[i].1[C_ACTION] = "Exchange".to_string(),
                2 => all_rows[i].1[C_TRADE] = "2020-13-45".to_string(),
                3 => all_rows[i].1[C_AMT] = "-5".to_string(),
                4 => all_rows[i].1[C_SEC] = String::new(),
                5 => all_rows[i].1[C_ACTION] = String::new(),
                6 => all_rows[i].1[C_SPLIT] = "two-for-one".to_string(),
                _ => {
                    // (an explicit rate: no row without look-ups may ever reach for the network)
                    all_rows[i].1[C_CUR] = "USD".to_string();
                    all_rows[i].1[C_FX] = "1.2500".to_string();
                    all_rows[i].1[C_ACTION] = "SfLA".to_string();
                }
            }
        }
    }
    // Now and then a row appears twice (a copy-paste slip), or carries very large / many-digit figures.
    if r.chance(1, 15) && !all_rows.is_empty() {
        let i = r.below(all_rows.len() as u64) as usize;
        let dup = all_rows[i].clone();
        all_rows.insert(i + 1, dup);
    }
    if r.chance(1, 15) {
        for (_, row) in all_rows.iter_mut() {
            if matches!(row[C_ACTION].to_lowercase().as_str(), "buy") && r.chance(1, 4) {
                row[C_AMT] = (*r.pick(&["123456789.99", "0.0000012345", "99999.123456789"])).to_string();
            }
            if !row[C_FX].is_empty() && r.chance(1, 4) {
                row[C_FX] = "1.3141592653".to_string();
            }
        }
    }
    if r.chance(1, 12) {
        // opening positions for symbols that never trade
        symbol_base.push("IDLE:7:140.00".to_string());
        symbol_base.push("NOPE2:3:30.00".to_string());
        if r.chance(1, 2) {
            symbol_base.push("ZZZ.TO:1:1.00".to_string());
        }
    }
    // A fifth of the inputs write some share counts with trailing zeros ("10.0", "2.50"): the same
    // number at another scale, which Decimal keeps and some cells print.
    if r.chance(1, 5) {
        for (_, row) in all_rows.iter_mut() {
            if !row[C_SHARES].is_empty() && r.chance(1, 3) {
                if row[C_SHARES].contains('.') {
                    row[C_SHARES].push('0');
                } else {
                    row[C_SHARES].push_str(if r.chance(1, 2) { ".0" } else { ".00" });
                }
            }
        }
    }
    let n_files = (r.below(3) + 1) as usize;
    let mut files: Vec<CsvFile> = (0..n_files).map(|i| CsvFile { name: format!("tx{}.csv", i + 1), extra_cols: vec![], rows: vec![], layout_seed: 0, crlf: false, bom: false }).collect();
    let per = all_rows.len().div_ceil(n_files).max(1);
    for (i, (_, row)) in all_rows.into_iter().enumerate() {
        files[(i / per).min(n_files - 1)].rows.push(row);
    }
    // Unusual but legal headers: a recognised column named twice (the right-most non-empty cell
    // wins), or a column the tool does not know (a warning on stderr).
    for f in files.iter_mut() {
        if r.chance(1, 5) {
            let col = *r.pick(&["memo", "Memo", "commission", "broker"]);
            f.extra_cols.push(col.to_string());
            for row in f.rows.iter_mut() {
                let is_trade = matches!(row[C_ACTION].to_lowercase().as_str(), "buy" | "sell");
                let cell = match col {
                    "commission" => {
                        if is_trade && r.chance(2, 3) {
                            cents_str(r.range(0, 999))
                        } else {
                            String::new()
                        }
                    }
                    "broker" => "Questrade".to_string(),
                    _ => {
                        if r.chance(2, 3) {
                            (*r.pick(&["second memo", "see statement", "dup"])).to_string()
                        } else {
                            String::new()
                        }
                    }
                };
                row.push(cell);
            }
        }
    }
    // Sometimes one more file that has a header and no rows.
    if r.chance(1, 12) {
        let pos = r.below(files.len() as u64 + 1) as usize;
        files.insert(pos, CsvFile { name: "empty.csv".to_string(), extra_cols: vec![], rows: vec![], layout_seed: 0, crlf: false, bom: false });
    }
    // A quarter of the files permute their columns and spell the header names differently; some
    // come from Windows (CR LF line ends, now and then a byte-order mark).
    for f in files.iter_mut() {
        if r.chance(1, 4) {
            f.layout_seed = r.next_u64() | 1;
        }
        f.crlf = r.chance(1, 8);
        f.bom = r.chance(1, 30);
    }
    // the summary date: inside the history, or (1 in 8) before its first / after its last transaction
    let sum_day = match r.below(16) {
        0 => d(start_year - 1, 6, 1),
        1 => d(start_year + 3, 12, 31),
        _ => d(start_year, 1, 1) + Duration::days(r.range(100, span_days.max(101))),
    };
    let mut hash_seeds = vec![];
    for _ in 0..k_seeds {
        hash_seeds.push(r.next_u64());
    }
    let max_read = *r.pick(&[usize::MAX, usize::MAX, 4096, 512, 7, 1]);
    let fx = if fx_mode {
        // a calendar that covers every trade date; today lies after the last one
        let mut cal = crate::fx::gen_calendar(&mut r);
        cal.start_year = start_year - 1;
        cal.n_years = 6;
        cal.gaps.retain(|(s, _)| {
            let y: i32 = s[..4].parse().unwrap_or(0);
            y >= cal.start_year && y < cal.start_year + 6
        });
        cal.holidays.retain(|s| {
            let y: i32 = s[..4].parse().unwrap_or(0);
            y >= cal.start_year && y < cal.start_year + 6
        });
        // a third of these inputs: a hand-edited cache ending at one of the rate-less trade dates
        let mut rateless: Vec<Date> = files
            .iter()
            .flat_map(|f| f.rows.iter())
            .filter(|row| row[C_CUR] == "USD" && row[C_FX].is_empty())
            .filter_map(|row| acb::util::date::parse_standard_date(&row[C_TRADE]).ok())
            .collect();
        rateless.sort();
        rateless.dedup();
        let hand = if rateless.len() >= 2 && r.chance(1, 3) { Some(rateless[r.below(rateless.len() as u64 - 1) as usize].to_string()) } else { None };
        Some(FxSpec { cal, format: crate::fx::gen_format(&mut r), published_today: r.chance(1, 2), hand_edited_cache_until: hand.clone(), verbose_cold: hand.is_none() && Rng::new(crate::prng::mix(seed, 0x7E4B, 9)).chance(1, 3) })
    } else {
        None
    };
    let e2e = fx.is_none() && r.chance(1, 10);
    let e2e_affiliate_spellings = e2e && r.chance(1, 2);
    let e2e_verbose = e2e && r.chance(1, 2);
    // (its own stream: the rest of the input is what it was before this knob existed)
    let mut rf = Rng::new(crate::prng::mix(seed, 0xF011, 9));
    // Tried and withdrawn (DESIGN 10): C09 quantifies over inputs x hash seeds in a world without
    // faults; what a FAILED run leaves behind is not covered by it, and a legitimate multi-threaded
    // writer leaves different partial files from run to run under a full disk. The knob stays for
    // experiments through a replay file; it is never generated.
    let _ = &mut rf;
    let out_disk_full_after: Option<u64> = None;
    Sc { files, modes: ALL_MODES.to_vec(), symbol_base, summarize_before: sum_day.to_string(), today: d(start_year + 4, 6, 15).to_string(), hash_seeds, max_read, fx, e2e, e2e_affiliate_spellings, e2e_verbose, out_disk_full_after }
}

fn set_aff(row: &mut [String], a: &str, r: &mut Rng) {
    // One canonical spelling per affiliate id (DESIGN §2.6); Default may also be left blank.
    if a == "Default" && r.chance(1, 2) {
        row[C_AFF] = String::new();
    } else {
        row[C_AFF] = a.to_string();
    }
}

// ---------------------------------------------------------------- execution

#[derive(Clone, Debug, PartialEq, Eq)]
pub struct RunOutput {
    pub stdout: Vec<u8>,
    pub stderr: Vec<u8>,
    pub files: Vec<(String, Vec<u8>)>,
    pub ok: Option<bool>,
    pub panic: Option<String>,
    pub perm: String,
    pub unmodelled: Vec<String>,
    pub downloads: usize,
    pub short_reads: u64,
    pub fs_faults_fired: u64,
}

/// The day on which a process runs. Without look-ups nothing the tool prints may depend on it, so
/// the processes of one input run on different days: the scenario's (years after the last
/// transaction), 20 days after the last settlement, or 90 days after it. With look-ups (shared
/// cache, server snapshot) every process runs on the scenario's day.
pub fn process_today(sc: &Sc, hash_seed: u64) -> Date {
    let base = parse_date(&sc.today);
    if sc.fx.is_some() {
        return base;
    }
    let last = sc.files.iter().flat_map(|f| f.rows.iter()).filter_map(|r| acb::util::date::parse_standard_date(&r[C_SETTLE]).ok()).max();
    match (hash_seed % 3, last) {
        (1, Some(l)) => l + Duration::days(20),
        (2, Some(l)) => l + Duration::days(90),
        _ => base,
    }
}

pub fn run_once(sc: &Sc, mode: Mode, hash_seed: u64) -> RunOutput {
    run_once_in(sc, mode, hash_seed, false, None, None)
}

const STALE_TAIL: &[u8] = b"STALE,TAIL,OF,AN,EARLIER,LONGER,RUN\nSTALE,TAIL,OF,AN,EARLIER,LONGER,RUN\n";

/// `used_out_dir`: the output directory already holds these files from an earlier, longer run
/// (same names, more bytes); the run must replace them, not write into them.
pub fn run_once_in(sc: &Sc, mode: Mode, hash_seed: u64, keep_cache: bool, boc: Option<std::sync::Arc<crate::fx::BocData>>, used_out_dir: Option<&Vec<(String, Vec<u8>)>>) -> RunOutput {
    // Input files live on the simulated disk, so the real File::open/read path runs.
    let names: Vec<String> = sc.files.iter().map(|f| format!("/simfs/in/{}", f.name)).collect();
    with_world(|w| {
        // what earlier processes left anywhere under the home directory (wherever this implementation
        // keeps its cache) survives; everything else is set up afresh
        let mut cache: Vec<(String, Vec<u8>)> = if keep_cache { w.fs.disk.all_files().into_iter().filter(|(p, _)| p.starts_with("/simfs/home/")).collect() } else { vec![] };
        if let (Some(fx), Some(data)) = (&sc.fx, &boc) {
            if let Some(until) = &fx.hand_edited_cache_until {
                // the same hand-edited year file before every process
                let until = parse_date(until);
                let mut text = String::new();
                let mut day = d(until.year(), 1, 1);
                while day <= until {
                    let rate = if day == until { "1.23456".to_string() } else { data.expected_rate(day).map(|x| x.to_string()).unwrap_or_else(|| "0".to_string()) };
                    text.push_str(&format!("{},{}\n", day, rate));
                    day += Duration::days(1);
                }
                cache = vec![(format!("{}/rates-{}.csv", crate::fx::CACHE_DIR, until.year()), text.into_bytes())];
            }
        }
        w.fs.disk = crate::simfs::Disk::new();
        for (n, data) in cache {
            w.fs.disk.put_file(&n, &data);
        }
        for (f, n) in sc.files.iter().zip(&names) {
            w.fs.disk.put_file(n, f.text().as_bytes());
        }
        if let Some(old) = used_out_dir {
            for (n, data) in old {
                let mut longer = data.clone();
                longer.extend_from_slice(STALE_TAIL);
                w.fs.disk.put_file(&format!("/simfs/out/{}", n), &longer);
            }
        }
    });
    let published_today = sc.fx.as_ref().map(|f| f.published_today).unwrap_or(false);
    let today_d = process_today(sc, hash_seed);
    let mut env = ProcEnv::new(hash_seed, today_d);
    env.knobs = Knobs { max_write: usize::MAX, max_read: sc.max_read, eintr_every: 0 };
    env.fs_faults.enospc_after_bytes = sc.out_disk_full_after;
    let symbol_base = sc.symbol_base.clone();
    let summarize_before = sc.summarize_before.clone();
    let probe_items: Vec<String> = {
        let mut v: BTreeSet<String> = BTreeSet::new();
        for f in &sc.files {
            for r in &f.rows {
                v.insert(r[C_SEC].clone());
                v.insert(r[C_AFF].to_lowercase());
            }
        }
        v.into_iter().collect()
    };
    let verbose = sc.fx.as_ref().map(|f| f.verbose_cold).unwrap_or(false);
    let out = run_process(&env, move || {
        // the library's verbose flag is a process-global: on for this simulated process only
        struct VerboseGuard(bool);
        impl Drop for VerboseGuard {
            fn drop(&mut self) {
                if self.0 {
                    acb::log::set_verbose(false);
                }
            }
        }
        let _verbose_guard = VerboseGuard(verbose);
        if verbose {
            acb::log::set_verbose(true);
        }
        // Seed-diversity probe: iteration order of a HashSet in this process.
        let hs: HashSet<&String> = probe_items.iter().collect();
        let perm: Vec<&str> = hs.iter().map(|s| s.as_str()).collect();
        let perm = perm.join("|");

        let init = match acb::app::input_parse::parse_initial_status(&symbol_base) {
            Ok(v) => v,
            Err(_) => return (None, perm),
        };
        let readers: Vec<acb::util::rw::DescribedReader> =
            names.iter().map(|n| acb::util::rw::DescribedReader::from_file_path(std::path::PathBuf::from(n))).collect();
        let mut options = acb::app::Options::default();
        match mode {
            Mode::Text => {}
            Mode::TextFull => options.render_full_dollar_values = true,
            Mode::TotalCosts => options.render_total_costs = true,
            Mode::CsvDir => options.csv_output_dir = Some("/simfs/out".to_string()),
            Mode::TotalCostsCsvDir => {
                options.render_total_costs = true;
                options.render_full_dollar_values = true;
                options.csv_output_dir = Some("/simfs/out".to_string());
            }
            Mode::Summary => options.summary_mode_latest_date = Some(parse_date(&summarize_before)),
            Mode::SummaryAnnual => {
                options.summary_mode_latest_date = Some(parse_date(&summarize_before));
                options.split_annual_summary_gains = true;
            }
            Mode::SummaryCsvDir => {
                options.summary_mode_latest_date = Some(parse_date(&summarize_before));
                options.render_full_dollar_values = true;
                options.csv_output_dir = Some("/simfs/out".to_string());
            }
            Mode::TotalCostsFull => {
                options.render_total_costs = true;
                options.render_full_dollar_values = true;
            }
        }
        let err = acb::util::rw::WriteHandle::stderr_write_handle();
        let log = std::rc::Rc::new(std::cell::RefCell::new(Vec::new()));
        let loader = match boc {
            None => acb::fx::io::RateLoader::new_cached_remote_loader(false, Box::new(acb::fx::io::InMemoryRatesCache::new()), Box::new(NoNetwork {}), err.clone()),
            Some(data) => acb::fx::io::RateLoader::new_cached_remote_loader(
                false,
                Box::new(acb::fx::io::CsvRatesCache::new(std::path::PathBuf::from(crate::fx::CACHE_DIR), err.clone())),
                Box::new(crate::fx::SimBoc { data, today: today_d, published_today, net_faults: vec![], log: log.clone() }),
                err.clone(),
            ),
        };
        let res = block_on(acb::app::run_acb_app_to_console(readers, init, options, loader, err));
        let downloads = log.borrow().len();
        (Some(res.is_ok()), format!("{}#{}", perm, downloads))
    });
    let files = with_world(|w| w.fs.disk.list_files("/simfs/out"));
    let (ok, perm, panic) = match out.result {
        Ok((ok, perm)) => (ok, perm, None),
        Err(p) => (None, String::new(), Some(p)),
    };
    let (perm, downloads) = match perm.rsplit_once('#') {
        Some((p, n)) => (p.to_string(), n.parse().unwrap_or(0)),
        None => (perm, 0),
    };
    RunOutput { stdout: out.stdout, stderr: out.stderr, files, ok, panic, perm, unmodelled: out.unmodelled, downloads, short_reads: out.short_reads, fs_faults_fired: out.fs_faults_fired.values().sum() }
}

// ------------------------------------------------ end-to-end lane (real acb processes)

/// Directory holding the real `acb` binary built from /repo's working tree (debug/acb) and the
/// LD_PRELOAD seam (libsimseed.so); the check script builds both.
pub fn e2e_dir() -> String {
    match std::env::var("VERIF_E2E_DIR") {
        Ok(d) if !d.is_empty() => d,
        _ => "/verif/target/e2e".to_string(),
    }
}

pub fn e2e_scratch() -> String {
    let base = if crate::common::out_dir() == "/verif" { "/verif/target".to_string() } else { crate::common::out_dir() };
    format!("{}/e2e-run/{}", base, std::process::id())
}

/// Once per OS process: the preload really owns the RandomState keys, clock and pid of a real process.
pub fn e2e_seam_check() -> Result<(), String> {
    static CHECK: std::sync::OnceLock<Result<(), String>> = std::sync::OnceLock::new();
    CHECK
        .get_or_init(|| {
            let dir = e2e_dir();
            let so = format!("{}/libsimseed.so", dir);
            let bin = format!("{}/debug/acb", dir);
            if !std::path::Path::new(&so).exists() || !std::path::Path::new(&bin).exists() {
                return Err(format!("end-to-end lane: {} or {} missing (run /verif/check setup)", so, bin));
            }
            let probe = std::env::current_exe().ok().and_then(|p| p.parent().map(|d| d.join("hashprobe"))).ok_or("no exe dir")?;
            let run = |seed: &str| -> Result<String, String> {
                let mut c = std::process::Command::new(&probe);
                c.env_clear().env("LD_PRELOAD", &so).env("ACBSIM_SEED", seed).env("ACBSIM_NOW", "1600000000").env("ACBSIM_PID", "4242");
                own_memory_layout(&mut c, seed.parse().unwrap_or(0));
                let o = c.output().map_err(|e| format!("cannot run {:?}: {}", probe, e))?;
                Ok(String::from_utf8_lossy(&o.stdout).to_string())
            };
            let (a, a2, b) = (run("1")?, run("1")?, run("2")?);
            if a != a2 || a == b || !a.contains("now=1600000000 pid=4242") {
                return Err(format!("end-to-end lane: the LD_PRELOAD seam does not own entropy/clock/pid/memory layout of a real process: {:?} / {:?} / {:?}", a, a2, b));
            }
            // the memory layout alone must follow the seed as well (heap, mapped and stack addresses)
            let layout = |s: &str| s.rsplit("layout=").next().unwrap_or("").trim().split('/').map(|x| x.to_string()).collect::<Vec<_>>();
            let (la, lb) = (layout(&a), layout(&b));
            if la.len() != 3 || lb.len() != 3 || (0..3).any(|i| la[i] == lb[i]) {
                return Err(format!("end-to-end lane: heap/mmap/stack addresses of a real process do not follow the seed: {:?} / {:?}", la, lb));
            }
            Ok(())
        })
        .clone()
}

fn mode_args(mode: Mode, summarize_before: &str, out_dir: &str) -> Vec<String> {
    let s = |x: &str| x.to_string();
    match mode {
        Mode::Text => vec![],
        Mode::TextFull => vec![s("--print-full-values")],
        Mode::TotalCosts => vec![s("--total-costs")],
        Mode::CsvDir => vec![s("--csv-output-dir"), s(out_dir)],
        Mode::TotalCostsCsvDir => vec![s("--total-costs"), s("--print-full-values"), s("-d"), s(out_dir)],
        Mode::Summary => vec![s("--summarize-before"), s(summarize_before)],
        Mode::SummaryAnnual => vec![s("--summarize-before"), s(summarize_before), s("--summarize-annual-gains")],
        Mode::SummaryCsvDir => vec![s("--summarize-before"), s(summarize_before), s("--print-full-values"), s("--csv-output-dir"), s(out_dir)],
        Mode::TotalCostsFull => vec![s("--total-costs"), s("--print-full-values")],
    }
}

/// Memory addresses are per-process randomness too (ASLR): the real process runs with address-space
/// randomisation switched off, and heap, mapped and stack addresses are shifted by amounts derived
/// from the seed (preload constructor; length of a padding environment variable).
pub fn own_memory_layout(c: &mut std::process::Command, seed: u64) {
    use std::os::unix::process::CommandExt;
    c.env("ACBSIM_LAYOUT", seed.to_string());
    c.env("ACBSIM_PAD", "x".repeat(16 * (1 + (seed % 97) as usize)));
    unsafe {
        c.pre_exec(|| {
            const ADDR_NO_RANDOMIZE: libc::c_ulong = 0x0040000;
            if libc::personality(ADDR_NO_RANDOMIZE) == -1 {
                return Err(std::io::Error::last_os_error());
            }
            Ok(())
        });
    }
}

/// One real acb process: real files in a scratch directory, real clap/main, real exit status.
pub fn run_e2e(sc: &Sc, mode: Mode, hash_seed: u64, used_out_dir: Option<&Vec<(String, Vec<u8>)>>) -> Result<RunOutput, String> {
    let dir = e2e_dir();
    let root = e2e_scratch();
    let _ = std::fs::remove_dir_all(&root);
    for sub in ["in", "out", "home"] {
        std::fs::create_dir_all(format!("{}/{}", root, sub)).map_err(|e| format!("e2e scratch {}: {}", root, e))?;
    }
    let mut args: Vec<String> = vec![];
    for f in &sc.files {
        let p = format!("{}/in/{}", root, f.name);
        let text = if sc.e2e_affiliate_spellings { f.with_affiliate_spellings().text() } else { f.text() };
        std::fs::write(&p, text).map_err(|e| format!("e2e write {}: {}", p, e))?;
        args.push(format!("in/{}", f.name));
    }
    if let Some(old) = used_out_dir {
        for (n, data) in old {
            let mut longer = data.clone();
            longer.extend_from_slice(STALE_TAIL);
            std::fs::write(format!("{}/out/{}", root, n), &longer).map_err(|e| e.to_string())?;
        }
    }
    for b in &sc.symbol_base {
        args.push("-b".to_string());
        args.push(b.clone());
    }
    args.extend(mode_args(mode, &sc.summarize_before, "out"));
    if sc.e2e_verbose {
        args.push("--verbose".to_string());
    }
    let today = process_today(sc, hash_seed);
    let now = (today - d(1970, 1, 1)).whole_days() * 86_400 + 43_200 + (hash_seed % 21_600) as i64 - 10_800;
    let mut cmd = std::process::Command::new(format!("{}/debug/acb", dir));
    cmd.args(&args)
        .current_dir(&root)
        .env_clear()
        .env("HOME", format!("{}/home", root))
        .env("TZ", "UTC")
        .env("LD_PRELOAD", format!("{}/libsimseed.so", dir))
        .env("ACBSIM_SEED", hash_seed.to_string())
        .env("ACBSIM_NOW", now.to_string())
        .env("ACBSIM_PID", (1000 + hash_seed % 30_000).to_string())
        .stdin(std::process::Stdio::null());
    own_memory_layout(&mut cmd, hash_seed);
    if let Some(limit) = sc.out_disk_full_after {
        use std::os::unix::process::CommandExt;
        unsafe {
            cmd.pre_exec(move || {
                // a file-size limit: writes beyond it fail with EFBIG (the signal that comes with it is ignored)
                libc::signal(libc::SIGXFSZ, libc::SIG_IGN);
                let lim = libc::rlimit { rlim_cur: limit, rlim_max: limit };
                if libc::setrlimit(libc::RLIMIT_FSIZE, &lim) != 0 {
                    return Err(std::io::Error::last_os_error());
                }
                Ok(())
            });
        }
    }
    let o = cmd.output().map_err(|e| format!("cannot start the real acb binary: {}", e))?;
    let mut files: Vec<(String, Vec<u8>)> = vec![];
    if let Ok(rd) = std::fs::read_dir(format!("{}/out", root)) {
        for e in rd.flatten() {
            let name = e.file_name().to_string_lossy().to_string();
            let data = std::fs::read(e.path()).map_err(|e| e.to_string())?;
            files.push((name, data));
        }
    }
    files.sort();
    let _ = std::fs::remove_dir_all(&root);
    let signalled = o.status.code().is_none();
    Ok(RunOutput { stdout: o.stdout, stderr: o.stderr, files, ok: o.status.code().map(|c| c == 0), panic: if signalled || o.status.code() == Some(101) { Some(format!("real process ended with {:?}", o.status)) } else { None }, perm: String::new(), unmodelled: vec![], downloads: 0, short_reads: 0, fs_faults_fired: 0 })
}

pub struct NoNetwork {}

#[async_trait::async_trait(?Send)]
impl acb::util::http::HttpRequester for NoNetwork {
    async fn get(&self, _url: &str) -> Result<String, String> {
        Err("hashsim: no network in this simulation".to_string())
    }
}

fn first_diff_line<'a>(a: &'a str, b: &'a str) -> (usize, &'a str, &'a str, String) {
    let mut section = String::from("(start)");
    let la: Vec<&str> = a.lines().collect();
    let lb: Vec<&str> = b.lines().collect();
    for i in 0..la.len().max(lb.len()) {
        let x = la.get(i).copied().unwrap_or("<EOF>");
        let y = lb.get(i).copied().unwrap_or("<EOF>");
        if x.starts_with("Transactions for ") {
            section = "Transactions".to_string();
        } else if x.starts_with("Aggregate Gains") {
            section = "Aggregate Gains".to_string();
        } else if x.starts_with("Total Costs") {
            section = "Total Costs".to_string();
        } else if x.starts_with("Yearly Max Costs") {
            section = "Yearly Max Costs".to_string();
        }
        if x != y {
            return (i + 1, x, y, section);
        }
    }
    (0, "", "", section)
}

fn classify(where_: &str, section: &str, x: &str, y: &str) -> String {
    let both = format!("{}\n{}", x, y);
    if both.contains("ignored transaction") {
        return "ignored-note order".to_string();
    }
    if where_.contains("yearly-max-costs") || section == "Yearly Max Costs" {
        return "yearly-max tie".to_string();
    }
    if both.contains("Split") && (section == "Transactions" || (where_.ends_with(".csv") && !where_.contains("costs") && !where_.contains("aggregate"))) {
        return "global-split expansion order".to_string();
    }
    if where_ == "stdout" {
        format!("stdout section {}", section)
    } else {
        format!("file {}", where_.trim_start_matches("file:"))
    }
}

pub fn compare(a: &RunOutput, b: &RunOutput, mode: Mode, sa: u64, sb: u64) -> Option<Violation> {
    if a.stdout != b.stdout {
        let (sa_s, sb_s) = (String::from_utf8_lossy(&a.stdout), String::from_utf8_lossy(&b.stdout));
        let (line, x, y, section) = first_diff_line(&sa_s, &sb_s);
        // Summary mode prints a CSV on stdout.
        let section = if matches!(mode, Mode::Summary | Mode::SummaryAnnual | Mode::SummaryCsvDir) { "summary CSV".to_string() } else { section };
        let sig = classify("stdout", &section, x, y);
        return Some(Violation {
            kind: "stdout_differs".to_string(),
            signature: sig,
            detail: format!("mode {:?}: stdout differs between hash seeds {} and {} at line {} ({}):\n  A: {}\n  B: {}", mode, sa, sb, line, section, x, y),
        });
    }
    if a.files != b.files {
        let na: Vec<&String> = a.files.iter().map(|f| &f.0).collect();
        let nb: Vec<&String> = b.files.iter().map(|f| &f.0).collect();
        if na != nb {
            return Some(Violation {
                kind: "file_set_differs".to_string(),
                signature: "output file set".to_string(),
                detail: format!("mode {:?}: output files differ between hash seeds {} and {}: {:?} vs {:?}", mode, sa, sb, na, nb),
            });
        }
        for (fa, fb) in a.files.iter().zip(&b.files) {
            if fa.1 != fb.1 {
                let (xa, xb) = (String::from_utf8_lossy(&fa.1), String::from_utf8_lossy(&fb.1));
                let (line, x, y, _) = first_diff_line(&xa, &xb);
                let sig = classify(&format!("file:{}", fa.0), "", x, y);
                return Some(Violation {
                    kind: "file_differs".to_string(),
                    signature: sig,
                    detail: format!("mode {:?}: output file {} differs between hash seeds {} and {} at line {}:\n  A: {}\n  B: {}", mode, fa.0, sa, sb, line, x, y),
                });
            }
        }
    }
    // Success versus failure only. HOW a failing run fails (an error return, or a panic in one of
    // two failing securities, whichever the process reaches first) shows on stderr and in the exit
    // code, not on standard output or in the output files: C09 does not cover it (DESIGN 4.1).
    if (a.ok == Some(true)) != (b.ok == Some(true)) {
        return Some(Violation {
            kind: "outcome_differs".to_string(),
            signature: "exit status".to_string(),
            detail: format!("mode {:?}: outcome differs between hash seeds {} and {}: {:?}/{:?} vs {:?}/{:?}", mode, sa, sb, a.ok, a.panic, b.ok, b.panic),
        });
    }
    None
}

/// Minimal RFC-4180 reader (quoted cells may contain commas and newlines).
fn csv_records(text: &str) -> Vec<Vec<String>> {
    let mut recs = vec![];
    let mut rec: Vec<String> = vec![];
    let mut cur = String::new();
    let mut q = false;
    let mut chars = text.chars().peekable();
    while let Some(ch) = chars.next() {
        if q {
            if ch == '"' {
                if chars.peek() == Some(&'"') {
                    cur.push('"');
                    chars.next();
                } else {
                    q = false;
                }
            } else {
                cur.push(ch);
            }
        } else {
            match ch {
                '"' => q = true,
                ',' => rec.push(std::mem::take(&mut cur)),
                '\n' => {
                    rec.push(std::mem::take(&mut cur));
                    recs.push(std::mem::take(&mut rec));
                }
                '\r' => {}
                c => cur.push(c),
            }
        }
    }
    if !cur.is_empty() || !rec.is_empty() {
        rec.push(cur);
        recs.push(rec);
    }
    recs
}

fn probes(sc: &Sc, mode: Mode, out: &RunOutput, st: &mut Stats) -> bool {
    let mut hit = false;
    let mut mark = |st: &mut Stats, k: &str| {
        st.bump(k);
        hit = true;
    };
    match mode {
        Mode::TotalCostsCsvDir => {
            for (name, data) in &out.files {
                let text = String::from_utf8_lossy(data);
                if name == "total-costs.csv" {
                    let mut by_year: BTreeMap<String, Vec<String>> = BTreeMap::new();
                    let mut notes_secs: BTreeSet<String> = BTreeSet::new();
                    for c in csv_records(&text).into_iter().skip(1) {
                        if c[0].contains("ignored transaction") {
                            if let (Some(a), Some(b)) = (c[0].find('('), c[0].find(')')) {
                                notes_secs.insert(c[0][a + 1..b].to_string());
                            }
                        } else if c.len() >= 2 && c[0].len() == 10 {
                            by_year.entry(c[0][..4].to_string()).or_default().push(c[1].clone());
                        }
                    }
                    if notes_secs.len() >= 2 {
                        mark(st, "probe.ignored_notes_in_ge2_securities");
                    }
                    for (_, totals) in by_year {
                        let parsed: Vec<rust_decimal::Decimal> =
                            totals.iter().filter_map(|t| t.trim_start_matches('$').replace(',', "").parse().ok()).collect();
                        if let Some(mx) = parsed.iter().max() {
                            if parsed.iter().filter(|v| *v == mx).count() >= 2 {
                                mark(st, "probe.yearly_max_tied_days");
                                break;
                            }
                        }
                    }
                } else if !name.contains("costs") && name != "aggregate-gains.csv" {
                    // per-security transactions: automatic SfLA rows for >=2 affiliates on one sale
                    let mut sfla: BTreeMap<String, BTreeSet<String>> = BTreeMap::new();
                    let mut years: BTreeSet<String> = BTreeSet::new();
                    for c in csv_records(&text).into_iter().skip(1) {
                        if c.len() > 15 {
                            if c[3] == "SfLA" && c[15].contains("Automatic") {
                                sfla.entry(c[1].clone()).or_default().insert(c[14].clone());
                            }
                            if c[3] == "Sell" && c[9] != "-" && c[2].len() >= 4 {
                                years.insert(c[2][..4].to_string());
                            }
                        }
                    }
                    if sfla.values().any(|s| s.len() >= 2) {
                        mark(st, "probe.auto_sfl_shared_by_ge2_affiliates");
                    }
                    if years.len() >= 2 {
                        mark(st, "probe.gains_in_ge2_years");
                    }
                }
            }
        }
        Mode::Summary => {
            let text = String::from_utf8_lossy(&out.stdout);
            let mut affs: BTreeSet<String> = BTreeSet::new();
            let mut secs: BTreeSet<String> = BTreeSet::new();
            let mut lines = csv_records(&text).into_iter();
            if let Some(hc) = lines.next() {
                let ai = hc.iter().position(|c| c == "affiliate");
                for c in lines {
                    if let Some(ai) = ai {
                        if let Some(a) = c.get(ai) {
                            affs.insert(a.clone());
                        }
                    }
                    secs.insert(c[0].clone());
                }
            }
            if affs.len() >= 2 {
                mark(st, "probe.summary_ge2_affiliates");
            }
            if secs.len() >= 2 {
                mark(st, "probe.summary_ge2_securities");
            }
        }
        Mode::Text => {
            let text = String::from_utf8_lossy(&out.stdout);
            if text.matches("Transactions for ").count() >= 2 {
                mark(st, "probe.ge2_securities_rendered");
            }
            {
                let names: BTreeSet<String> = sc.files.iter().flat_map(|f| f.rows.iter().map(|r| r[C_SEC].clone())).collect();
                let folded: BTreeSet<String> = names.iter().map(|n| n.to_lowercase()).collect();
                if folded.len() < names.len() {
                    mark(st, "probe.securities_differing_only_in_case");
                }
            }
            if text.contains("[!] ") {
                mark(st, "probe.security_error_rendered");
            }
            if sc.files.iter().any(|f| f.rows.iter().any(|r| r[C_SEC].chars().any(|c| "/\\:*?\"<>|".contains(c)))) {
                mark(st, "probe.security_name_with_file_name_special_characters");
            }
            // global split over >= 2 affiliates
            let mut global_split_multi = false;
            for f in &sc.files {
                for r in &f.rows {
                    if r[C_ACTION] == "Split" && r[C_AFF].is_empty() {
                        let n: BTreeSet<String> = sc
                            .files
                            .iter()
                            .flat_map(|f| f.rows.iter())
                            .filter(|x| x[C_SEC] == r[C_SEC] && !(x[C_ACTION] == "Split" && x[C_AFF].is_empty()))
                            .map(|x| if x[C_AFF].is_empty() { "default".to_string() } else { x[C_AFF].to_lowercase() })
                            .collect();
                        if n.len() >= 2 {
                            global_split_multi = true;
                        }
                    }
                }
            }
            if global_split_multi && out.ok == Some(true) {
                mark(st, "probe.global_split_over_ge2_affiliates");
            }
        }
        _ => {}
    }
    hit
}

pub struct C09;

impl Engine for C09 {
    type Sc = Sc;
    fn property(&self) -> &'static str {
        "C09"
    }
    fn engine_name(&self) -> &'static str {
        "hashsim"
    }
    fn lane(&self) -> u64 {
        9
    }
    fn budget(&self, tier: Tier) -> (u64, u64) {
        match tier {
            Tier::Quick => (5_000, 60),
            Tier::Thorough => (60_000, 1200),
        }
    }
    fn generate(&self, seed: u64, _index: u64, tier: Tier) -> Sc {
        generate(seed, if tier == Tier::Quick { 6 } else { 24 })
    }
    fn execute(&self, sc: &Sc, st: &mut Stats) -> ExecOut {
        let mut violations = vec![];
        let mut digest = fnv64(b"c09");
        let mut nontrivial = false;
        let mut perms: BTreeSet<String> = BTreeSet::new();
        let boc = sc.fx.as_ref().map(|f| std::sync::Arc::new(crate::fx::BocData::new(&f.cal, &f.format, &[])));
        if sc.fx.as_ref().map(|f| f.hand_edited_cache_until.is_some()).unwrap_or(false) {
            st.bump("probe.fx_every_process_starts_from_a_hand_edited_cache");
            nontrivial = true;
        }
        {
            let secs: BTreeSet<&String> = sc.files.iter().flat_map(|f| f.rows.iter().map(|r| &r[C_SEC])).collect();
            if secs.len() >= 2 {
                st.bump("probe.input_with_ge2_securities");
            }
        }
        if sc.files.iter().map(|f| f.rows.len()).sum::<usize>() >= 400 {
            st.bump("probe.large_input_ge_400_rows");
        }
        if sc.files.iter().any(|f| f.layout_seed != 0) {
            st.bump("probe.columns_permuted_and_header_names_respelled");
        }
        if sc.files.iter().any(|f| f.extra_cols.iter().any(|c| HEADER.contains(&c.to_lowercase().as_str()))) {
            st.bump("probe.header_repeats_a_recognised_column");
            nontrivial = true;
        }
        // Demonstration knob (sensitivity of the end-to-end lane on its own): skip the simulated
        // processes and send every input without look-ups through the real binary.
        let only_e2e = std::env::var("VERIF_C09_ONLY_E2E").map(|v| v == "1").unwrap_or(false);
        for mode in &sc.modes {
            if only_e2e {
                break;
            }
            let mut first: Option<(u64, RunOutput)> = None;
            for (hi, hs) in sc.hash_seeds.iter().enumerate() {
                // every other later process finds the output directory used by an earlier, longer run
                let used = if hi % 2 == 1 && matches!(mode, Mode::CsvDir | Mode::TotalCostsCsvDir | Mode::SummaryCsvDir) { first.as_ref().map(|f| &f.1.files).filter(|f| !f.is_empty()) } else { None };
                if used.is_some() {
                    st.bump("probe.output_dir_used_by_an_earlier_longer_run");
                    st.bump("fault.output_dir_holds_longer_files_of_an_earlier_run");
                }
                let verbose_cold = sc.fx.as_ref().map(|f| f.verbose_cold).unwrap_or(false);
                if verbose_cold && hi == 0 {
                    st.bump("probe.look_up_input_run_cold_and_verbose_by_every_process");
                }
                let out = run_once_in(sc, *mode, *hs, hi > 0 && boc.is_some() && !verbose_cold, boc.clone(), used);
                st.add("fault.legal_short_reads", out.short_reads);
                if out.fs_faults_fired > 0 {
                    st.bump("fault.output_disk_full_in_every_process_of_the_input");
                }
                st.bump("fault.hash_seed_redrawn_for_a_process");
                if boc.is_some() {
                    if hi == 0 && out.downloads > 0 {
                        st.bump("probe.fx_first_run_downloaded");
                    }
                    if hi == 1 && out.downloads == 0 && first.as_ref().map(|f| f.1.downloads > 0).unwrap_or(false) {
                        st.bump("probe.fx_second_run_served_from_cache");
                        nontrivial = true;
                    }
                }
                st.bump("sim.processes");
                digest = fnv64_add(digest, &out.stdout);
                digest = fnv64_add(digest, &out.stderr);
                for f in &out.files {
                    digest = fnv64_add(digest, f.0.as_bytes());
                    digest = fnv64_add(digest, &f.1);
                }
                if !out.unmodelled.is_empty() {
                    st.harness_error(format!("unmodelled call in simulated process: {:?}", out.unmodelled));
                }
                if out.panic.is_some() {
                    st.bump("probe.panic_in_app");
                    // By-catch (not C09's business, reported in DESIGN.md): where the application panicked.
                    let e = String::from_utf8_lossy(&out.stderr);
                    if let Some(l) = e.lines().find(|l| l.starts_with("thread panicked at ")) {
                        st.bump(&format!("bycatch.{}", l.trim_end_matches(':')));
                    }
                }
                perms.insert(out.perm.clone());
                match &first {
                    None => {
                        if probes(sc, *mode, &out, st) {
                            nontrivial = true;
                        }
                        st.state(&[&format!("{:?}", mode), &format!("{:?}", out.ok), &format!("{}", out.files.len()), &format!("{}", out.stdout.len().min(1 << 20) / 2048)]);
                        first = Some((*hs, out));
                    }
                    Some((s0, o0)) => {
                        if let Some(v) = compare(o0, &out, *mode, *s0, *hs) {
                            if !violations.iter().any(|x: &Violation| x.kind == v.kind && x.signature == v.signature) {
                                violations.push(v);
                            }
                        }
                    }
                }
            }
        }
        if (sc.e2e || only_e2e) && sc.fx.is_none() {
            match e2e_seam_check() {
                Err(e) => st.harness_error(e),
                Ok(()) => {
                    st.bump("probe.e2e_inputs_run_by_the_real_binary");
                    'modes: for mode in &sc.modes {
                        let mut first: Option<(u64, RunOutput)> = None;
                        for (hi, hs) in sc.hash_seeds.iter().take(3).enumerate() {
                            let used = if hi % 2 == 1 && matches!(mode, Mode::CsvDir | Mode::TotalCostsCsvDir | Mode::SummaryCsvDir) { first.as_ref().map(|f| &f.1.files).filter(|f| !f.is_empty()) } else { None };
                            let out = match run_e2e(sc, *mode, *hs, used) {
                                Ok(o) => o,
                                Err(e) => {
                                    st.harness_error(e);
                                    break 'modes;
                                }
                            };
                            st.bump("sim.real_os_processes");
                            digest = fnv64_add(digest, &out.stdout);
                            for f in &out.files {
                                digest = fnv64_add(digest, f.0.as_bytes());
                                digest = fnv64_add(digest, &f.1);
                            }
                            if hi == 0 && sc.e2e_affiliate_spellings {
                                st.bump("probe.e2e_affiliate_spelled_differently_from_row_to_row");
                            }
                            if hi == 0 && sc.e2e_verbose {
                                st.bump("probe.e2e_verbose_runs");
                            }
                            if hi == 0 && !sc.e2e_affiliate_spellings && !sc.e2e_verbose && sc.out_disk_full_after.is_none() {
                                // fidelity: the simulated process and the real process print the same bytes
                                let sim = run_once(sc, *mode, *hs);
                                if sim.stdout == out.stdout && sim.files == out.files {
                                    st.bump("probe.e2e_real_process_output_equals_simulated_process_output");
                                } else {
                                    st.bump("note.e2e_real_process_output_differs_from_simulated");
                                }
                            }
                            match &first {
                                None => first = Some((*hs, out)),
                                Some((s0, o0)) => {
                                    if let Some(mut v) = compare(o0, &out, *mode, *s0, *hs) {
                                        v.detail = format!("real acb processes (end-to-end lane): {}", v.detail);
                                        if !violations.iter().any(|x: &Violation| x.kind == v.kind && x.signature == v.signature) {
                                            violations.push(v);
                                        }
                                    }
                                }
                            }
                        }
                    }
                }
            }
        }
        if perms.len() >= 2 {
            st.bump("probe.hash_seed_changed_probe_set_order");
        }
        st.add("probe.distinct_probe_permutations", perms.len() as u64);
        ExecOut { violations, digest, nontrivial }
    }
    fn shrink(&self, sc: &Sc) -> Vec<Sc> {
        let mut c = vec![];
        // fewer modes
        if sc.modes.len() > 1 {
            for m in &sc.modes {
                let mut s = sc.clone();
                s.modes = vec![*m];
                c.push(s);
            }
        }
        // drop a file
        if sc.files.len() > 1 {
            for i in 0..sc.files.len() {
                let mut s = sc.clone();
                s.files.remove(i);
                c.push(s);
            }
        }
        // drop a security
        let secs: BTreeSet<String> = sc.files.iter().flat_map(|f| f.rows.iter().map(|r| r[C_SEC].clone())).collect();
        if secs.len() > 1 {
            for sec in &secs {
                let mut s = sc.clone();
                for f in &mut s.files {
                    f.rows.retain(|r| &r[C_SEC] != sec);
                }
                s.symbol_base.retain(|b| !b.starts_with(&format!("{}:", sec)));
                c.push(s);
            }
        }
        // drop halves, then single rows
        for (fi, f) in sc.files.iter().enumerate() {
            if f.rows.len() >= 4 {
                let h = f.rows.len() / 2;
                let mut s = sc.clone();
                s.files[fi].rows.truncate(h);
                c.push(s);
                let mut s = sc.clone();
                s.files[fi].rows.drain(..h);
                c.push(s);
            }
        }
        for (fi, f) in sc.files.iter().enumerate() {
            for ri in 0..f.rows.len() {
                let mut s = sc.clone();
                s.files[fi].rows.remove(ri);
                c.push(s);
            }
        }
        if !sc.symbol_base.is_empty() {
            let mut s = sc.clone();
            s.symbol_base.clear();
            c.push(s);
        }
        for (fi, f) in sc.files.iter().enumerate() {
            if f.crlf || f.bom {
                let mut s = sc.clone();
                s.files[fi].crlf = false;
                s.files[fi].bom = false;
                c.push(s);
            }
            if f.layout_seed != 0 {
                let mut s = sc.clone();
                s.files[fi].layout_seed = 0;
                c.push(s);
            }
        }
        for (fi, f) in sc.files.iter().enumerate() {
            if !f.extra_cols.is_empty() {
                let mut s = sc.clone();
                s.files[fi].extra_cols.clear();
                for row in s.files[fi].rows.iter_mut() {
                    row.truncate(HEADER.len());
                }
                c.push(s);
            }
        }
        if let Some(fx) = &sc.fx {
            if fx.hand_edited_cache_until.is_some() {
                let mut s = sc.clone();
                s.fx.as_mut().unwrap().hand_edited_cache_until = None;
                c.push(s);
            }
            if !fx.cal.gaps.is_empty() || fx.cal.holidays.len() > 8 {
                let mut s = sc.clone();
                let f = s.fx.as_mut().unwrap();
                f.cal.gaps.clear();
                f.cal.holidays.truncate(8);
                c.push(s);
            }
        }
        if sc.max_read != usize::MAX {
            let mut s = sc.clone();
            s.max_read = usize::MAX;
            c.push(s);
        }
        if sc.e2e {
            let mut s = sc.clone();
            s.e2e = false;
            s.e2e_affiliate_spellings = false;
            s.e2e_verbose = false;
            c.push(s);
        }
        if sc.e2e_affiliate_spellings {
            let mut s = sc.clone();
            s.e2e_affiliate_spellings = false;
            c.push(s);
        }
        if sc.e2e_verbose {
            let mut s = sc.clone();
            s.e2e_verbose = false;
            c.push(s);
        }
        if sc.out_disk_full_after.is_some() {
            let mut s = sc.clone();
            s.out_disk_full_after = None;
            c.push(s);
        }
        // blank optional cells
        for (fi, f) in sc.files.iter().enumerate() {
            for (ri, row) in f.rows.iter().enumerate() {
                for col in [C_MEMO, C_COMM, C_CCUR, C_CFX, C_SFL] {
                    if !row[col].is_empty() {
                        let mut s = sc.clone();
                        s.files[fi].rows[ri][col] = String::new();
                        if col == C_CCUR {
                            s.files[fi].rows[ri][C_CFX] = String::new();
                        }
                        c.push(s);
                    }
                }
                if !row[C_CUR].is_empty() {
                    let mut s = sc.clone();
                    s.files[fi].rows[ri][C_CUR] = String::new();
                    s.files[fi].rows[ri][C_FX] = String::new();
                    c.push(s);
                }
            }
        }
        // only two hash seeds
        if sc.hash_seeds.len() > 2 {
            for i in 1..sc.hash_seeds.len() {
                let mut s = sc.clone();
                s.hash_seeds = vec![sc.hash_seeds[0], sc.hash_seeds[i]];
                c.push(s);
            }
        }
        c
    }
    fn sample(&self, sc: &Sc) -> Value {
        json!({
            "files": sc.files.iter().map(|f| json!({"name": f.name, "csv": f.text()})).collect::<Vec<_>>(),
            "modes": sc.modes, "symbol_base": sc.symbol_base, "summarize_before": sc.summarize_before,
            "fx_lookups_over_shared_cache": sc.fx.is_some(), "hash_seeds": sc.hash_seeds, "max_read": if sc.max_read == usize::MAX { json!("unlimited") } else { json!(sc.max_read) },
        })
    }
    fn minimise_seconds(&self) -> u64 {
        40
    }
    fn level(&self) -> &'static str {
        "exploration"
    }
    fn rule(&self) -> String {
        "Seeded portfolio generator (1-4 securities, 1-4 affiliates incl. registered, buys/sells/RoC/manual SfLA/global+per-affiliate splits, CAD and explicit-rate USD, tied cost days, securities differing only in case, 1-3 files, a fifth of the files with a repeated recognised column (second memo/commission) or an unknown column; in --csv-output-dir modes every other later process finds the output directory already holding longer files of the same names from an earlier run; in a quarter of the inputs some USD rows carry no rate and the K processes of a mode run one after the other over one simulated ~/.acb, so the first downloads from the simulated Bank of Canada and the others find its cache) x 9 option combinations x K per-process hash seeds (K=6 quick, 24 thorough); each (input, mode, seed) is one simulated process running the real run_acb_app_to_console. A sixth of the inputs name a security with file-name special characters (RY:TO, BRK/B, A*B, ...); a quarter of the files permute their columns and respell (or annotate) header names; a fifth write share counts at other scales (10.0); sales are sometimes surrounded by a fractional round trip of another affiliate or followed by two oversells. Without look-ups the K processes of an input also run on different simulated days (20 or 90 days after the last settlement, or years later). End-to-end lane: a tenth of the inputs without look-ups are also run by the real acb binary (clap, main, exit status, real files) in real OS processes - 3 seeds x 7 modes - whose getrandom/clock/pid and memory layout (address-space randomisation off, seed-dependent heap/mmap/stack shifts) come from the simulator through an LD_PRELOAD seam; the seam is probed once per worker (same seed -> same HashSet order and addresses, other seed -> other order and addresses). Oracle: stdout bytes and (file name, bytes) of the output directory identical across seeds. evaluations = inputs; distinct_nontrivial = distinct inputs (digest of scenario JSON) whose run reached at least one probe (>=2 securities rendered, global split over >=2 affiliates, ignored notes in >=2 securities, tied yearly-max days, auto-SfL shared by >=2 affiliates, gains in >=2 years, summary with >=2 affiliates/securities).".to_string()
    }
    fn state_measure(&self) -> String {
        "distinct (mode, exit status, number of output files, stdout size bucket of 2 KiB) tuples".to_string()
    }
    fn assumptions(&self) -> Vec<String> {
        vec![
            "std HashMap/HashSet keys come from getrandom(), interposed by the harness binary; one fresh thread = one simulated process = one draw of keys".to_string(),
            "GLOBAL_AF_DEDUP_TABLE is shared by simulated processes of one worker; the workload uses one canonical spelling per affiliate id so its content does not depend on history".to_string(),
            "stderr is recorded but not compared (the property names standard output and output files)".to_string(),
            "clap argument parsing (cmd.rs) is not run in-process; simulation enters at run_acb_app_to_console; the end-to-end lane runs the real binary (clap, main, home-directory look-up) for a tenth of the inputs".to_string(),
            "end-to-end lane: std in the real binary obtains RandomState keys through the libc getrandom symbol, which LD_PRELOAD overrides (checked by the hashprobe binary once per worker); address-space layout of real processes is not controlled".to_string(),
        ]
    }
    fn real_components(&self) -> Vec<&'static str> {
        vec!["the acb binary itself (cmd.rs: clap, main, exit status) in the end-to-end lane", "acb::app::run_acb_app_to_console", "parse_tx_csv", "Tx::try_from", "portfolio::bookkeeping (delta list, superficial loss, costs)", "portfolio::summary", "portfolio::render", "TextWriter/CsvWriter", "std::fs File::open/create/read/write (over SimFs)", "csv, tabled, rust_decimal, time crates"]
    }
    fn stub_components(&self) -> Vec<&'static str> {
        vec!["entropy (getrandom -> seeded PRNG)", "kernel file system (SimFs, in memory)", "console (fd 1/2 captured)", "clock (simulated today)", "process boundary (thread)", "HTTP transport (SimBoC when USD rows carry no rate; otherwise no network)", "async runtime (no-op-waker executor)"]
    }
    fn required_probes(&self, _tier: Tier) -> Vec<&'static str> {
        vec![
            // (probes read off the tool's OUTPUT TEXT - >=2 securities rendered, ignored notes in >=2
            // securities, tied yearly-max days, shared automatic SfL, gains in >=2 years, summary with
            // >=2 affiliates/securities - are reported but not required: a change of wording or layout
            // must not turn the check into a harness error)
            "probe.input_with_ge2_securities",
            "probe.large_input_ge_400_rows",
            "probe.global_split_over_ge2_affiliates",
            "probe.hash_seed_changed_probe_set_order",
            "probe.securities_differing_only_in_case",
            "probe.output_dir_used_by_an_earlier_longer_run",
            "probe.header_repeats_a_recognised_column",
            "probe.columns_permuted_and_header_names_respelled",
            "probe.security_name_with_file_name_special_characters",
            "probe.e2e_inputs_run_by_the_real_binary",
            "probe.e2e_real_process_output_equals_simulated_process_output",
            "probe.e2e_affiliate_spelled_differently_from_row_to_row",
            "probe.e2e_verbose_runs",
            "probe.fx_every_process_starts_from_a_hand_edited_cache",
            "probe.fx_first_run_downloaded",
            "probe.fx_second_run_served_from_cache",
        ]
    }
}

pub fn debug_nondeterminism(sc: &Sc) {
    for mode in &sc.modes {
        for hs in &sc.hash_seeds {
            let a = run_once(sc, *mode, *hs);
            let b = run_once(sc, *mode, *hs);
            if a != b {
                println!("NONDET mode {:?} seed {}", mode, hs);
                if a.stdout != b.stdout {
                    let (x, y) = (String::from_utf8_lossy(&a.stdout), String::from_utf8_lossy(&b.stdout));
                    println!(" stdout: {:?}", first_diff_line(&x, &y));
                }
                if a.stderr != b.stderr {
                    let (x, y) = (String::from_utf8_lossy(&a.stderr), String::from_utf8_lossy(&b.stderr));
                    println!(" stderr: {:?}", first_diff_line(&x, &y));
                }
                println!(" files eq {} ok {:?} {:?} panic {:?} {:?} perm eq {}", a.files == b.files, a.ok, b.ok, a.panic, b.panic, a.perm == b.perm);
                return;
            }
        }
    }
}

/// Process-global lazies in the library (affiliate regexes, the affiliate
/// dedup table) are initialised by whichever simulated process touches them
/// first; their construction consumes RandomState increments on that thread.
/// Warm them once per OS process so every later simulated process — in a
/// worker or in a fresh replay process — sees the same sequence.
pub fn warm_up() {
    for i in 0..6u64 {
        let sc = generate(crate::prng::mix(0xACB, i, 9), 1);
        for mode in ALL_MODES {
            let _ = run_once(&sc, mode, 1);
        }
    }
}
