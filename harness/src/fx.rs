//! fxsim shared parts: publication calendar, SimBoC (the Bank of Canada Valet
//! server behind the repository's HttpRequester trait), the reference model of
//! C12, and the simulated-process runner for rate look-ups.

use crate::interpose::with_world;
use crate::proc::{block_on, run_process, ProcEnv, ProcOut};
use crate::prng::{splitmix, Rng};
use crate::simfs::{FsFaults, Knobs};
use rust_decimal::Decimal;
use serde::{Deserialize, Serialize};
use std::cell::RefCell;
use std::collections::{BTreeMap, BTreeSet};
use std::rc::Rc;
use std::str::FromStr;
use std::sync::Arc;
use time::{Date, Duration, Month, Weekday};

pub const CACHE_DIR: &str = "/simfs/home/.acb";

/// C14 sometimes keeps the cache in a directory whose path is NOT valid UTF-8 (legal on Linux: a
/// home directory named in Latin-1). The bytes the code under test sees, and the String under which
/// SimFs keys the same directory.
pub const ODD_CACHE_DIR_BYTES: &[u8] = b"/simfs/home/caf\xE9/.acb";
pub const ODD_CACHE_DIR_KEY: &str = "/simfs/home/caf\u{e9}/.acb";
static ODD_CACHE_DIR: std::sync::atomic::AtomicBool = std::sync::atomic::AtomicBool::new(false);

pub fn set_odd_cache_dir(on: bool) {
    ODD_CACHE_DIR.store(on, std::sync::atomic::Ordering::SeqCst);
}

/// The cache directory of the current scenario, as SimFs keys it.
pub fn cache_dir_key() -> &'static str {
    if ODD_CACHE_DIR.load(std::sync::atomic::Ordering::SeqCst) {
        ODD_CACHE_DIR_KEY
    } else {
        CACHE_DIR
    }
}

/// ... and as the path handed to the code under test.
pub fn cache_dir_path() -> std::path::PathBuf {
    use std::os::unix::ffi::OsStringExt;
    if ODD_CACHE_DIR.load(std::sync::atomic::Ordering::SeqCst) {
        std::path::PathBuf::from(std::ffi::OsString::from_vec(ODD_CACHE_DIR_BYTES.to_vec()))
    } else {
        std::path::PathBuf::from(CACHE_DIR)
    }
}

pub fn ymd(y: i32, m: u8, d: u8) -> Date {
    Date::from_calendar_date(y, Month::try_from(m).unwrap(), d).unwrap()
}

pub fn pd(s: &str) -> Date {
    acb::util::date::parse_standard_date(s).unwrap_or_else(|_| panic!("harness: bad date {:?}", s))
}

fn day_index(d: Date) -> i64 {
    (d - ymd(2000, 1, 1)).whole_days()
}

// ------------------------------------------------------------------ calendar

#[derive(Clone, Debug, Serialize, Deserialize, PartialEq)]
pub struct Calendar {
    pub start_year: i32,
    pub n_years: u32,
    /// Weekdays without a publication.
    pub holidays: Vec<String>,
    /// (first day, length): consecutive days without any publication.
    pub gaps: Vec<(String, u32)>,
    pub value_seed: u64,
}

#[derive(Clone, Debug, Serialize, Deserialize, PartialEq, Default)]
pub struct JsonFormat {
    /// value rendered as JSON number instead of string
    pub numeric_values: bool,
    pub extra_keys: bool,
    pub pretty: bool,
    /// Order of the observations in the response (a matter of format, not of content):
    /// 0 ascending by date (what Valet does by default), 1 descending, 2 a few observations
    /// listed late (after newer ones), 3 a few observations listed twice (identical copies),
    /// 4 ascending, plus the observations of up to 6 days before and after the requested range.
    #[serde(default)]
    pub obs_order: u8,
    #[serde(default)]
    pub order_seed: u64,
}

/// Damaged observations (C12 obs_malformed configuration): (date, kind).
pub const MALFORMED_KINDS: [&str; 11] = ["missing_v", "non_numeric", "null_v", "zero", "negative", "bad_date", "value_not_object", "obs_not_object", "missing_date", "date_not_string", "no_series_key"];

/// Materialised calendar: the ground truth of one simulation.
pub struct BocData {
    pub cal: Calendar,
    pub format: JsonFormat,
    /// date -> the "v" string the server publishes for that date
    pub published: BTreeMap<Date, String>,
    pub malformed: BTreeMap<Date, String>,
}

pub fn series_for_year(year: i32) -> &'static str {
    if year >= 2017 {
        "FXCADUSD"
    } else {
        "IEXE0101"
    }
}

impl BocData {
    pub fn new(cal: &Calendar, format: &JsonFormat, malformed: &[(String, String)]) -> BocData {
        let first = ymd(cal.start_year, 1, 1);
        let last = ymd(cal.start_year + cal.n_years as i32 - 1, 12, 31);
        let hol: BTreeSet<Date> = cal.holidays.iter().map(|s| pd(s)).collect();
        let gaps: Vec<(Date, Date)> = cal.gaps.iter().map(|(s, n)| (pd(s), pd(s) + Duration::days(*n as i64 - 1))).collect();
        let mut published = BTreeMap::new();
        let mut d = first;
        while d <= last {
            let wk = matches!(d.weekday(), Weekday::Saturday | Weekday::Sunday);
            let in_gap = gaps.iter().any(|(a, b)| d >= *a && d <= *b);
            if !wk && !hol.contains(&d) && !in_gap {
                published.insert(d, Self::value_for(cal.value_seed, d));
            }
            d += Duration::days(1);
        }
        let malformed = malformed.iter().map(|(d, k)| (pd(d), k.clone())).collect();
        BocData { cal: cal.clone(), format: format.clone(), published, malformed }
    }

    /// Unique per date (encodes the day index in four digits), >= 5 decimals: a returned rate names
    /// the one date it came from.
    fn value_for(seed: u64, d: Date) -> String {
        let di = day_index(d);
        let mut x = seed ^ (di as u64).wrapping_mul(0x9E37_79B9);
        // The last digit makes a truncated copy a different number. In a third of the calendars it may
        // also be 0 (a published "1.39450"): the same number at another scale, which Decimal keeps and
        // full-precision output prints - a cut copy of such a value is numerically equal, hence harmless.
        let digit = if (seed / 4) % 3 == 0 { splitmix(&mut x) % 10 } else { 1 + splitmix(&mut x) % 9 };
        // A quarter of the calendars are "around par": noon values (CAD per USD) BELOW 1, as in
        // 2007-08 and 2010-13, and daily values (USD per CAD) ABOVE 1 - which series an observation
        // belongs to, not its size, decides whether it is inverted.
        let par = seed % 4 == 0;
        if d.year() >= 2017 {
            if par {
                format!("1.0{:04}{}", di % 10000, digit)
            } else {
                format!("0.7{:04}{}", di % 10000, digit)
            }
        } else if par {
            format!("0.9{:04}{}", di % 10000, digit)
        } else {
            format!("1.{:04}{}", di % 10000, digit)
        }
    }

    pub fn last_day(&self) -> Date {
        ymd(self.cal.start_year + self.cal.n_years as i32 - 1, 12, 31)
    }

    /// Is the observation of `d` in the snapshot a run on (`today`, `published_today`) can download?
    pub fn in_snapshot(&self, d: Date, today: Date, published_today: bool) -> bool {
        self.published.contains_key(&d) && (d < today || (d == today && published_today))
    }

    /// The USD->CAD rate a user must get for a rate published on `d`.
    pub fn expected_rate(&self, d: Date) -> Option<Decimal> {
        let v = Decimal::from_str(self.published.get(&d)?).ok()?;
        if d.year() >= 2017 {
            Some(Decimal::ONE / v)
        } else {
            Some(v)
        }
    }

    /// Render the Valet JSON for [start, end] of `series` as seen on (today, published_today).
    pub fn render(&self, series: &str, start: Date, end: Date, today: Date, published_today: bool) -> String {
        let mut obs: Vec<String> = vec![];
        // obs_order 4: the server also lists a few observations just outside the requested range
        // (of the neighbouring years; same series only) - they say nothing about the requested year.
        let (lo, hi) = if self.format.obs_order == 4 { (start - Duration::days(6), end + Duration::days(6)) } else { (start, end) };
        for (d, v) in self.published.range(lo..=hi) {
            if !self.in_snapshot(*d, today, published_today) {
                continue;
            }
            if series_for_year(d.year()) != series {
                continue;
            }
            let val = if self.format.numeric_values { v.clone() } else { format!("\"{}\"", v) };
            let extra = if self.format.extra_keys { ",\"FXUSDCAD\":{\"v\":\"9.9999\"},\"note\":null" } else { "" };
            let o = match self.malformed.get(d).map(|s| s.as_str()) {
                None => format!("{{\"d\":\"{}\",\"{}\":{{\"v\":{}}}{}}}", d, series, val, extra),
                Some("missing_v") => format!("{{\"d\":\"{}\",\"{}\":{{\"w\":{}}}}}", d, series, val),
                Some("non_numeric") => format!("{{\"d\":\"{}\",\"{}\":{{\"v\":\"n/a\"}}}}", d, series),
                Some("null_v") => format!("{{\"d\":\"{}\",\"{}\":{{\"v\":null}}}}", d, series),
                Some("zero") => format!("{{\"d\":\"{}\",\"{}\":{{\"v\":\"0.0000\"}}}}", d, series),
                Some("negative") => format!("{{\"d\":\"{}\",\"{}\":{{\"v\":\"-{}\"}}}}", d, series, v),
                Some("bad_date") => format!("{{\"d\":\"{}x\",\"{}\":{{\"v\":{}}}}}", d, series, val),
                Some("missing_date") => format!("{{\"{}\":{{\"v\":{}}}}}", series, val),
                Some("date_not_string") => format!("{{\"d\":{},\"{}\":{{\"v\":{}}}}}", d.year() * 10000 + d.month() as i32 * 100 + d.day() as i32, series, val),
                Some("no_series_key") => format!("{{\"d\":\"{}\"}}", d),
                Some("value_not_object") => format!("{{\"d\":\"{}\",\"{}\":{}}}", d, series, val),
                Some(_) => format!("\"{} {}\"", d, v),
            };
            obs.push(o);
        }
        match self.format.obs_order {
            1 => obs.reverse(),
            2 | 3 if obs.len() >= 2 => {
                let mut x = self.format.order_seed ^ (start.year() as u64).wrapping_mul(0x9E37_79B9_7F4A_7C15);
                let n = 1 + (splitmix(&mut x) % 3) as usize;
                for _ in 0..n {
                    // prefer the last observations: they are the ones look-ups near today want
                    let len = obs.len();
                    let i = if splitmix(&mut x) % 2 == 0 { len - 1 - (splitmix(&mut x) as usize % len.min(6)) } else { splitmix(&mut x) as usize % len };
                    if self.format.obs_order == 2 {
                        let o = obs.remove(i);
                        let j = i + 1 + (splitmix(&mut x) as usize % (len - i).max(1));
                        obs.insert(j.min(obs.len()), o);
                    } else {
                        let o = obs[i].clone();
                        let j = splitmix(&mut x) as usize % (len + 1);
                        obs.insert(j, o);
                    }
                }
            }
            _ => {}
        }
        let sep = if self.format.pretty { ",\n    " } else { "," };
        let body = obs.join(sep);
        if self.format.pretty {
            format!("{{\n  \"terms\": {{\"url\": \"https://www.bankofcanada.ca/terms/\"}},\n  \"seriesDetail\": {{\"{}\": {{\"label\": \"x\"}}}},\n  \"observations\": [\n    {}\n  ]\n}}\n", series, body)
        } else {
            format!("{{\"observations\":[{}]}}", body)
        }
    }
}

// ---------------------------------------------------------- reference model

#[derive(Clone, Debug, PartialEq)]
pub enum RefAnswer {
    Rate { date: Date, depth: u32 },
    NoRate,
}

/// C12's reference (DESIGN 4.2): the rate of the trade date if in the snapshot;
/// else error if the date is today or later; else the first present of d-1..d-7; else error.
pub fn ref_lookup(boc: &BocData, today: Date, published_today: bool, d: Date) -> RefAnswer {
    let present = |x: Date| boc.in_snapshot(x, today, published_today) && !boc.malformed.contains_key(&x);
    if present(d) {
        return RefAnswer::Rate { date: d, depth: 0 };
    }
    if d >= today {
        return RefAnswer::NoRate;
    }
    for i in 1..=7u32 {
        let x = d - Duration::days(i as i64);
        if present(x) {
            return RefAnswer::Rate { date: x, depth: i };
        }
    }
    RefAnswer::NoRate
}

/// Dates the look-up of `d` needs, per the reference model: d down to the date
/// whose rate is used, or the full 7 days back when none is.
pub fn ref_touched(boc: &BocData, today: Date, published_today: bool, d: Date) -> Vec<Date> {
    match ref_lookup(boc, today, published_today, d) {
        RefAnswer::Rate { depth, .. } => (0..=depth as i64).map(|i| d - Duration::days(i)).collect(),
        RefAnswer::NoRate => {
            if d >= today {
                vec![d]
            } else {
                (0..=7i64).map(|i| d - Duration::days(i)).collect()
            }
        }
    }
}

// ------------------------------------------------------------------- SimBoC

#[derive(Clone, Debug, PartialEq, Serialize, Deserialize)]
pub struct ReqObs {
    pub year: i32,
    pub series: String,
    pub ok: bool,
    pub fault: Option<String>,
    pub url_ok: bool,
}

pub const NET_FAULT_KINDS: [&str; 6] = ["http_error", "http_html_body", "http_truncated_json", "http_empty_body", "http_json_error_object", "http_json_array"];

pub struct SimBoc {
    pub data: Arc<BocData>,
    pub today: Date,
    pub published_today: bool,
    /// fault plan indexed by request number within this process
    pub net_faults: Vec<Option<String>>,
    pub log: Rc<RefCell<Vec<ReqObs>>>,
}

fn parse_url(url: &str) -> Option<(String, Date, Date)> {
    let rest = url.strip_prefix("https://www.bankofcanada.ca/valet/observations/")?;
    let (series, rest) = rest.split_once("/json?")?;
    let mut start = None;
    let mut end = None;
    for kv in rest.split('&') {
        let (k, v) = kv.split_once('=')?;
        match k {
            "start_date" => start = acb::util::date::parse_standard_date(v).ok(),
            "end_date" => end = acb::util::date::parse_standard_date(v).ok(),
            _ => {}
        }
    }
    Some((series.to_string(), start?, end?))
}

#[async_trait::async_trait(?Send)]
impl acb::util::http::HttpRequester for SimBoc {
    async fn get(&self, url: &str) -> Result<String, String> {
        crate::interpose::simulated_request_latency();
        let n = self.log.borrow().len();
        if n >= 64 {
            return Err("SimBoC: request budget of this simulated process exhausted".to_string());
        }
        let parsed = parse_url(url);
        let (series, start, end) = match parsed {
            Some(p) => p,
            None => {
                self.log.borrow_mut().push(ReqObs { year: 0, series: String::new(), ok: false, fault: None, url_ok: false });
                return Err("404 Not Found".to_string());
            }
        };
        let year = start.year();
        let fault = self.net_faults.get(n).cloned().flatten();
        let known_series = series == "FXCADUSD" || series == "IEXE0101";
        let mut obs = ReqObs { year, series: series.clone(), ok: false, fault: fault.clone(), url_ok: known_series };
        if !known_series {
            self.log.borrow_mut().push(obs);
            return Ok("{\"message\":\"Series not found\"}".to_string());
        }
        let res = match fault.as_deref() {
            Some("http_error") => Err("connection reset by peer".to_string()),
            Some("http_html_body") => Ok("<html><body><h1>503 Service Unavailable</h1></body></html>".to_string()),
            Some("http_empty_body") => Ok(String::new()),
            Some("http_json_error_object") => Ok("{\"message\":\"The service is temporarily unavailable\",\"docs\":\"https://www.bankofcanada.ca/valet/docs\"}".to_string()),
            Some("http_json_array") => Ok("[]".to_string()),
            Some("http_truncated_json") => {
                let full = self.data.render(&series, start, end, self.today, self.published_today);
                let cut = full.len() * 2 / 3;
                Ok(full[..cut].to_string())
            }
            _ => {
                obs.ok = true;
                Ok(self.data.render(&series, start, end, self.today, self.published_today))
            }
        };
        self.log.borrow_mut().push(obs);
        res
    }
}

// ------------------------------------------------------ simulated FX process

#[derive(Clone, Debug, Serialize, Deserialize, PartialEq)]
pub enum CacheKind {
    Csv,
    Mem,
}

#[derive(Clone, Debug, Serialize, Deserialize, PartialEq, Default)]
pub struct FsFaultSpec {
    pub open_write_errno: Option<i32>,
    pub mkdir_errno: Option<i32>,
    pub enospc_after_bytes: Option<u64>,
    /// Disk full this many bytes before the end of everything the run would write: the harness first
    /// executes the run on a copy of the world to learn the total, then for real with the limit set.
    #[serde(default)]
    pub enospc_before_end: Option<u64>,
    pub rename_errno: Option<i32>,
    pub fsync_errno: Option<i32>,
    #[serde(default)]
    pub fsync_error_keeps: Option<u64>,
    #[serde(default)]
    pub open_read_errno: Option<i32>,
    #[serde(default)]
    pub read_errno: Option<i32>,
}

impl FsFaultSpec {
    pub fn is_none(&self) -> bool {
        *self == FsFaultSpec::default()
    }
    pub fn to_faults(&self) -> FsFaults {
        FsFaults {
            open_write_errno: self.open_write_errno,
            mkdir_errno: self.mkdir_errno,
            enospc_after_bytes: self.enospc_after_bytes,
            rename_errno: self.rename_errno,
            fsync_errno: self.fsync_errno,
            fsync_error_keeps: self.fsync_error_keeps,
            open_read_errno: self.open_read_errno,
            read_errno: self.read_errno,
        }
    }
}

/// Rates as (date, rate) strings — the Send-able form of a cache year.
pub type MemState = BTreeMap<u32, Vec<(String, String)>>;

#[derive(Clone, Debug, Serialize, Deserialize, PartialEq)]
pub struct AppRow {
    pub trade: String,
    pub settle_off: i64,
    pub cur: Option<String>,
    pub fx: Option<String>,
    pub commission: bool,
    pub ccur: Option<String>,
    pub cfx: Option<String>,
    pub sell: bool,
    /// a return of capital (per-share amount in the row's currency) instead of a Buy/Sell
    #[serde(default)]
    pub roc: bool,
    /// the price cell is an explicit 0 (a zero-cost buy / a worthless sale)
    #[serde(default)]
    pub zero_price: bool,
    /// the commission cell is an explicit 0.00
    #[serde(default)]
    pub zero_commission: bool,
    /// a second security (buys only: it has no opening position)
    #[serde(default)]
    pub other_security: bool,
    /// whose row it is: 0 the default affiliate (empty cell), 1 "Spouse", 2 "(R)" (registered), 3 "Spouse (R)".
    /// Buys only (other affiliates have no opening position). The rate rules do not depend on it.
    #[serde(default)]
    pub affiliate: u8,
}

impl AppRow {
    pub fn usd(trade: &str) -> AppRow {
        AppRow { trade: trade.to_string(), settle_off: 2, cur: Some("USD".into()), fx: None, commission: false, ccur: None, cfx: None, sell: false, roc: false, zero_price: false, zero_commission: false, other_security: false, affiliate: 0 }
    }
}

pub struct FxPlan {
    pub data: Arc<BocData>,
    pub today: Date,
    pub published_today: bool,
    pub force: bool,
    pub cache: CacheKind,
    pub mem_in: MemState,
    pub lookups: Vec<Date>,
    /// Some => go through run_acb_app_to_delta_models on a CSV of these rows instead of direct calls.
    pub app_rows: Option<Vec<AppRow>>,
    /// The rows are laid out in this many CSV files (>= 1); all files share one loader.
    pub app_files: usize,
    /// Run the rows through run_acb_app_to_console (tables on the captured stdout) instead of the delta models.
    pub app_console: bool,
    /// Use the deprecated 'date' column name for the settlement date.
    pub app_legacy_date: bool,
    /// --date-fmt: 0 = default ([year]-[month]-[day]); 1 = [month]/[day]/[year]; 2 = [day].[month].[year]; 3 = [year]-[day]-[month]
    pub app_date_fmt: u8,
    pub net_faults: Vec<Option<String>>,
    /// The server's date when it differs from the process's clock (a clock set ahead): the
    /// snapshot SimBoC serves is the one of this day. None = the process's today.
    pub server_today: Option<Date>,
    /// Some(h): "today" comes from the simulated system clock + TZ (h hours west of UTC), not from the test override.
    pub clock_tz: Option<i8>,
    /// seconds added to the process's instant (see ProcEnv::now_shift)
    pub now_shift: i64,
    /// See ProcEnv::session (u64::MAX = a detached one-off process that leaves a running session alone).
    pub session: Option<u64>,
    pub fs_faults: FsFaultSpec,
    pub knobs: Knobs,
    pub hash_seed: u64,
}

#[derive(Clone, Debug, PartialEq)]
pub struct LookupObs {
    pub date: Date,
    pub result: Result<(Date, Decimal), String>,
    /// index range of requests issued during this look-up
    pub req_from: usize,
    pub req_to: usize,
}

#[derive(Clone, Debug, PartialEq)]
pub struct RowRates {
    pub row: usize,
    pub tx_currency: String,
    pub tx_rate: Decimal,
    pub comm_currency: String,
    pub comm_rate: Decimal,
}

pub struct FxObs {
    pub lookups: Vec<LookupObs>,
    pub app: Option<Result<Vec<RowRates>, String>>,
    pub requests: Vec<ReqObs>,
    pub mem_out: MemState,
    pub panic: Option<String>,
    pub stderr: Vec<u8>,
    pub stdout: Vec<u8>,
    pub proc: ProcMeta,
}

#[derive(Default)]
pub struct ProcMeta {
    pub journal: Vec<crate::simfs::Op>,
    pub fs_faults_fired: BTreeMap<&'static str, u64>,
    pub short_writes: u64,
    pub short_reads: u64,
    pub eintrs: u64,
    pub unmodelled: Vec<String>,
    pub fs_ops: u64,
}

pub fn app_csv(rows: &[AppRow]) -> String {
    app_csv_from(rows, 0, false)
}

pub const DATE_FMTS: [&str; 4] = ["[year]-[month]-[day]", "[month]/[day]/[year]", "[day].[month].[year]", "[year]-[day]-[month]"];

fn fmt_date(d: Date, date_fmt: u8) -> String {
    match date_fmt {
        1 => format!("{:02}/{:02}/{}", d.month() as u8, d.day(), d.year()),
        2 => format!("{:02}.{:02}.{}", d.day(), d.month() as u8, d.year()),
        // looks like the standard format with day and month swapped
        3 => format!("{}-{:02}-{:02}", d.year(), d.day(), d.month() as u8),
        _ => d.to_string(),
    }
}

pub fn app_csv_from(rows: &[AppRow], first_index: usize, legacy_date: bool) -> String {
    app_csv_fmt(rows, first_index, legacy_date, 0)
}

pub fn app_csv_fmt(rows: &[AppRow], first_index: usize, legacy_date: bool, date_fmt: u8) -> String {
    let mut s = format!("security,trade date,{},action,shares,amount/share,commission,currency,exchange rate,commission currency,commission exchange rate,memo,affiliate\n", if legacy_date { "date" } else { "settlement date" });
    if first_index == 0 {
        // an opening CAD position long before any calendar, so that Sell rows never over-sell
        s.push_str(&format!("FOO,{},{},Buy,1000000,1.00,,,,,,seed,\n", fmt_date(ymd(2000, 1, 3), date_fmt), fmt_date(ymd(2000, 1, 5), date_fmt)));
    }
    for (i, r) in rows.iter().enumerate() {
        let i = i + first_index;
        let trade = pd(&r.trade);
        s.push_str(&format!(
            "{},{},{},{},{},{},{},{},{},{},{},{},{}\n",
            if r.other_security && !r.sell && !r.roc { "BAR" } else { "FOO" },
            fmt_date(trade, date_fmt),
            fmt_date(trade + Duration::days(r.settle_off), date_fmt),
            if r.roc { "RoC" } else if r.sell { "Sell" } else { "Buy" },
            if r.roc { "" } else if r.sell { "1" } else { "1000" },
            if r.roc { "0.001" } else if r.zero_price { "0" } else { "10.00" },
            if r.commission && !r.roc { if r.zero_commission { "0.00" } else { "1.00" } } else { "" },
            r.cur.clone().unwrap_or_default(),
            r.fx.clone().unwrap_or_default(),
            r.ccur.clone().unwrap_or_default(),
            r.cfx.clone().unwrap_or_default(),
            i,
            if r.sell || r.roc { "" } else { ["", "Spouse", "(R)", "Spouse (R)"][r.affiliate as usize % 4] }
        ));
    }
    s
}

type Inner = (Vec<LookupObs>, Option<Result<Vec<RowRates>, String>>, Vec<ReqObs>, MemState);

pub fn run_fx_process(plan: FxPlan) -> FxObs {
    let mut env = ProcEnv::new(plan.hash_seed, plan.today);
    env.knobs = plan.knobs.clone();
    env.fs_faults = plan.fs_faults.to_faults();
    env.clock_tz_hours_west = plan.clock_tz;
    env.now_shift = plan.now_shift;
    env.session = plan.session;
    let FxPlan { data, today, published_today, force, cache, mem_in, lookups, app_rows, app_files, app_console, app_legacy_date, app_date_fmt, net_faults, server_today, .. } = plan;
    // The process finds its cache directory the way the command line tool does: $HOME, then
    // util::os::home_dir_path() (which creates ~/.acb and makes it writable). No simulated process is
    // running while the variable changes.
    let cache_dir = cache_dir_path();
    if let Some(home) = cache_dir.parent() {
        std::env::set_var("HOME", home);
    }
    let out: ProcOut<Inner> = run_process(&env, move || {
        use acb::fx::io::{CsvRatesCache, InMemoryRatesCache, RateLoader, RatesCache};
        use acb::util::rw::WriteHandle;
        let log = Rc::new(RefCell::new(Vec::<ReqObs>::new()));
        let boc = SimBoc { data: data.clone(), today: server_today.unwrap_or(today), published_today, net_faults, log: log.clone() };
        let err = WriteHandle::stderr_write_handle();
        let mem_handle;
        let cache_box: Box<dyn RatesCache> = match cache {
            CacheKind::Csv => {
                mem_handle = None;
                let dir = match acb::util::os::home_dir_path() {
                    Ok(d) => d,
                    // (an injected mkdir/chmod fault: the tool would stop here; the simulation goes on
                    // with the directory it expected, whose creation the cache write will try again)
                    Err(_) => cache_dir,
                };
                Box::new(CsvRatesCache::new(dir, err.clone()))
            }
            CacheKind::Mem => {
                let c = InMemoryRatesCache::new();
                {
                    let mut m = c.rates_by_year.borrow_mut();
                    for (y, rows) in &mem_in {
                        m.insert(
                            *y,
                            rows.iter().map(|(d, r)| acb::fx::DailyRate::new(pd(d), Decimal::from_str(r).unwrap())).collect(),
                        );
                    }
                }
                mem_handle = Some(c.rates_by_year.clone());
                Box::new(c)
            }
        };
        let mut loader = RateLoader::new_cached_remote_loader(force, cache_box, Box::new(boc), err.clone());
        let mut obs = vec![];
        let mut app = None;
        match app_rows {
            None => {
                for d in lookups {
                    let from = log.borrow().len();
                    let r = block_on(loader.get_effective_usd_cad_rate(d));
                    let to = log.borrow().len();
                    obs.push(LookupObs { date: d, result: r.map(|x| (x.date, x.foreign_to_local_rate)), req_from: from, req_to: to });
                }
            }
            Some(rows) => {
                let nf = app_files.max(1).min(rows.len().max(1));
                let per = rows.len().div_ceil(nf).max(1);
                let readers: Vec<acb::util::rw::DescribedReader> = rows
                    .chunks(per)
                    .enumerate()
                    .map(|(fi, chunk)| acb::util::rw::DescribedReader::from_string(format!("sim{}.csv", fi), app_csv_fmt(chunk, fi * per, app_legacy_date, app_date_fmt)))
                    .collect();
                let parse_opts = acb::portfolio::io::tx_csv::TxCsvParseOptions { date_format: if app_date_fmt == 0 { None } else { Some(acb::util::date::parse_dyn_date_format(DATE_FMTS[app_date_fmt as usize % 4]).expect("harness date format")) } };
                if app_console {
                    let mut options = acb::app::Options::default();
                    options.csv_parse_options = acb::portfolio::io::tx_csv::TxCsvParseOptions { date_format: parse_opts.date_format.clone() };
                    let res = block_on(acb::app::run_acb_app_to_console(readers, std::collections::HashMap::new(), options, loader, err.clone()));
                    let reqs = log.borrow().clone();
                    return (obs, Some(res.map(|_| vec![]).map_err(|_| "run_acb_app_to_console returned Err".to_string())), reqs, MemState::new());
                }
                let res = block_on(acb::app::run_acb_app_to_delta_models(
                    readers,
                    std::collections::HashMap::new(),
                    &parse_opts,
                    loader,
                    err.clone(),
                ));
                app = Some(match res {
                    Err(e) => Err(e),
                    Ok(by_sec) => {
                        let mut out = vec![];
                        for (_sec, dl) in by_sec {
                            for delta in dl.deltas_or_partial_deltas() {
                                let row: usize = delta.tx.memo.trim().parse().unwrap_or(usize::MAX);
                                let (cr, ccr) = match &delta.tx.action_specifics {
                                    acb::portfolio::TxActionSpecifics::Buy(b) => (b.tx_currency_and_rate.clone(), b.commission_currency_and_rate().clone()),
                                    acb::portfolio::TxActionSpecifics::Sell(s) => (s.tx_currency_and_rate.clone(), s.commission_currency_and_rate().clone()),
                                    acb::portfolio::TxActionSpecifics::Roc(r) => (r.tx_currency_and_rate.clone(), r.tx_currency_and_rate.clone()),
                                    _ => continue,
                                };
                                out.push(RowRates {
                                    row,
                                    tx_currency: cr.currency.as_str().to_string(),
                                    tx_rate: *cr.exchange_rate,
                                    comm_currency: ccr.currency.as_str().to_string(),
                                    comm_rate: *ccr.exchange_rate,
                                });
                            }
                        }
                        out.sort_by_key(|r| r.row);
                        Ok(out)
                    }
                });
            }
        }
        let mem_out: MemState = match mem_handle {
            Some(h) => h
                .borrow()
                .iter()
                .map(|(y, v)| (*y, v.iter().map(|r| (r.date.to_string(), r.foreign_to_local_rate.to_string())).collect()))
                .collect(),
            None => MemState::new(),
        };
        let reqs = log.borrow().clone();
        (obs, app, reqs, mem_out)
    });
    let meta = ProcMeta {
        journal: out.journal,
        fs_faults_fired: out.fs_faults_fired,
        short_writes: out.short_writes,
        short_reads: out.short_reads,
        eintrs: out.eintrs,
        unmodelled: out.unmodelled,
        fs_ops: out.fs_ops,
    };
    match out.result {
        Ok((lookups, app, requests, mem_out)) => FxObs { lookups, app, requests, mem_out, panic: None, stderr: out.stderr, stdout: out.stdout, proc: meta },
        Err(p) => FxObs { lookups: vec![], app: None, requests: vec![], mem_out: MemState::new(), panic: Some(p), stderr: out.stderr, stdout: out.stdout, proc: meta },
    }
}

/// The same look-up by the real code with no cache: fresh simulated process,
/// empty in-memory cache, force_download, no faults. Memoised per scenario.
pub struct Reference {
    pub data: Arc<BocData>,
    memo: BTreeMap<(Date, bool, Date), Result<(Date, Decimal), String>>,
    pub evaluated: u64,
}

impl Reference {
    pub fn new(data: Arc<BocData>) -> Reference {
        Reference { data, memo: BTreeMap::new(), evaluated: 0 }
    }

    pub fn lookup(&mut self, today: Date, published_today: bool, d: Date) -> Result<(Date, Decimal), String> {
        if let Some(r) = self.memo.get(&(today, published_today, d)) {
            return r.clone();
        }
        // The reference must not touch the simulated disk of the system under test.
        let saved = with_world(|w| w.fs.disk.clone());
        let obs = run_fx_process(FxPlan {
            data: self.data.clone(),
            today,
            published_today,
            force: true,
            cache: CacheKind::Mem,
            mem_in: MemState::new(),
            lookups: vec![d],
            app_rows: None,
            app_files: 1,
            app_console: false,
            app_legacy_date: false,
            app_date_fmt: 0,
            net_faults: vec![],
            server_today: None,
            clock_tz: None,
            now_shift: 0,
            // (a detached one-off process: a long-lived process of the history under test stays alive)
            session: Some(u64::MAX),
            fs_faults: FsFaultSpec::default(),
            knobs: Knobs::default(),
            hash_seed: 0x5EED,
        });
        with_world(|w| w.fs.disk = saved);
        self.evaluated += 1;
        let r = match obs.panic {
            Some(p) => Err(format!("PANIC: {}", p)),
            None => obs.lookups[0].result.clone(),
        };
        self.memo.insert((today, published_today, d), r.clone());
        r
    }
}

pub fn same_answer(a: &Result<(Date, Decimal), String>, b: &Result<(Date, Decimal), String>) -> bool {
    match (a, b) {
        (Ok(x), Ok(y)) => x.0 == y.0 && x.1 == y.1,
        (Err(_), Err(_)) => true,
        _ => false,
    }
}

pub fn show_answer(a: &Result<(Date, Decimal), String>) -> String {
    match a {
        Ok((d, r)) => format!("Ok(rate of {} = {})", d, r),
        Err(e) => format!("Err({})", e.lines().next().unwrap_or("")),
    }
}

/// What the persisted cache holds, read by the harness itself (not by the code
/// under test): year -> set of dates with a row (rate or zero placeholder).
pub fn persisted_dates(cache: &CacheKind, mem: &MemState) -> BTreeMap<i32, BTreeSet<Date>> {
    let mut out: BTreeMap<i32, BTreeSet<Date>> = BTreeMap::new();
    match cache {
        CacheKind::Mem => {
            for (y, rows) in mem {
                let e = out.entry(*y as i32).or_default();
                for (d, _) in rows {
                    e.insert(pd(d));
                }
            }
        }
        CacheKind::Csv => {
            let files = with_world(|w| w.fs.disk.list_files(cache_dir_key()));
            for (name, data) in files {
                if let Some(y) = name.strip_prefix("rates-").and_then(|s| s.strip_suffix(".csv")).and_then(|s| s.parse::<i32>().ok()) {
                    let e = out.entry(y).or_default();
                    for line in String::from_utf8_lossy(&data).lines() {
                        if let Some((d, r)) = line.split_once(',') {
                            if let (Ok(d), Ok(_)) = (acb::util::date::parse_standard_date(d), Decimal::from_str(r)) {
                                e.insert(d);
                            }
                        }
                    }
                }
            }
        }
    }
    out
}

// ------------------------------------------------------- calendar generator

pub fn gen_calendar(r: &mut Rng) -> Calendar {
    let n_years = r.range(2, 4) as u32;
    // Some spans straddle 2016/2017 (noon -> daily series).
    let start_year = match r.below(4) {
        0 => 2017 - r.range(1, n_years as i64 - 1).max(1) as i32,
        1 => r.range(2012, 2015) as i32,
        _ => r.range(2017, 2023) as i32,
    };
    let first = ymd(start_year, 1, 1);
    let total_days = (ymd(start_year + n_years as i32 - 1, 12, 31) - first).whole_days();
    let mut holidays = BTreeSet::new();
    for y in start_year..start_year + n_years as i32 {
        for (m, d) in [(1u8, 1u8), (7, 1), (12, 25), (12, 26)] {
            if r.chance(9, 10) {
                holidays.insert(ymd(y, m, d));
            }
        }
        if r.chance(1, 2) {
            holidays.insert(ymd(y, 1, 2));
        }
    }
    for _ in 0..r.range(0, 8 * n_years as i64) {
        holidays.insert(first + Duration::days(r.range(0, total_days)));
    }
    let mut gaps = vec![];
    let n_gaps = r.weighted(&[4, 3, 2, 1]);
    for _ in 0..n_gaps {
        let len = r.range(3, 11) as u32;
        let start = match r.below(3) {
            0 => first + Duration::days(r.range(0, total_days - 12)),
            // across a year boundary
            1 => ymd(start_year + r.range(0, n_years as i64 - 2).max(0) as i32, 12, 31) - Duration::days(r.range(0, len as i64 - 1)),
            // early January
            _ => ymd(start_year + r.range(0, n_years as i64 - 1) as i32, 1, 1) + Duration::days(r.range(0, 3)),
        };
        gaps.push((start.to_string(), len));
    }
    Calendar { start_year, n_years, holidays: holidays.into_iter().map(|d| d.to_string()).collect(), gaps, value_seed: r.next_u64() }
}

pub fn gen_format(r: &mut Rng) -> JsonFormat {
    JsonFormat { numeric_values: r.chance(1, 4), extra_keys: r.chance(1, 4), pretty: r.chance(1, 3), obs_order: 0, order_seed: 0 }
}

/// Dates worth asking about for a given calendar and "today": edges of gaps,
/// year ends, the noon/daily seam, the days around today, weekends, uniform.
pub fn interesting_date(r: &mut Rng, boc: &BocData, today: Date) -> Date {
    let first = ymd(boc.cal.start_year, 1, 1);
    let last = boc.last_day();
    let clamp = |d: Date| if d < first { first } else if d > last + Duration::days(3) { last } else { d };
    let d = match r.weighted(&[5, 4, 3, 2, 3]) {
        0 => today + Duration::days(r.range(-9, 2)),
        1 => {
            if boc.cal.gaps.is_empty() {
                today - Duration::days(r.range(0, 400))
            } else {
                let (s, n) = r.pick(&boc.cal.gaps).clone();
                pd(&s) + Duration::days(n as i64 - 1 + r.range(-2, 9))
            }
        }
        2 => {
            let y = boc.cal.start_year + r.range(0, boc.cal.n_years as i64 - 1) as i32;
            if r.chance(1, 2) {
                ymd(y, 1, 1) + Duration::days(r.range(0, 8))
            } else {
                ymd(y, 12, 31) - Duration::days(r.range(0, 8))
            }
        }
        3 => {
            if boc.cal.start_year <= 2016 {
                ymd(2017, 1, 1) + Duration::days(r.range(-6, 9))
            } else {
                today - Duration::days(r.range(0, 30))
            }
        }
        _ => first + Duration::days(r.range(0, (last - first).whole_days())),
    };
    // Dates far after today are all the same case (no rate yet): mirror most of them into the past.
    let d = if d > today + Duration::days(2) && r.chance(5, 6) { today - (d - today) } else { d };
    clamp(d)
}

pub fn gen_today(r: &mut Rng, boc: &BocData) -> Date {
    let first = ymd(boc.cal.start_year, 1, 1);
    let last = boc.last_day();
    match r.weighted(&[3, 2, 2, 1]) {
        0 => first + Duration::days(r.range(20, (last - first).whole_days())),
        1 => {
            let y = boc.cal.start_year + r.range(1, boc.cal.n_years as i64 - 1).max(1) as i32;
            ymd(y, 1, 1) + Duration::days(r.range(0, 12))
        }
        2 => {
            let y = boc.cal.start_year + r.range(0, boc.cal.n_years as i64 - 1) as i32;
            ymd(y, 12, 31) - Duration::days(r.range(0, 12))
        }
        _ => {
            if boc.cal.gaps.is_empty() {
                last - Duration::days(r.range(0, 200))
            } else {
                let (s, n) = r.pick(&boc.cal.gaps).clone();
                pd(&s) + Duration::days(n as i64 + r.range(-1, 9))
            }
        }
    }
    .min(last + Duration::days(1))
    .max(first + Duration::days(1))
}
