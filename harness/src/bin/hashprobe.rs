//! Seam probe for the C09 end-to-end lane: prints the iteration order of a std HashSet.
//! Run under LD_PRELOAD=libsimseed.so with ACBSIM_SEED set, the order must be a function of the
//! seed (same seed -> same line, other seed -> another line), which shows that the preload owns
//! the RandomState keys of a real process. Contains no interposition of its own.
use std::collections::HashSet;
fn main() {
    let s: HashSet<u32> = (0..64).collect();
    let v: Vec<String> = s.iter().map(|x| x.to_string()).collect();
    let now = std::time::SystemTime::now().duration_since(std::time::UNIX_EPOCH).map(|d| d.as_secs()).unwrap_or(0);
    println!("{} now={} pid={}", v.join(","), now, std::process::id());
}
