//! Seam probe for the C09 end-to-end lane: prints the iteration order of a std HashSet.
//! Run under LD_PRELOAD=libsimseed.so with ACBSIM_SEED set, the order must be a function of the
//! seed (same seed -> same line, other seed -> another line), which shows that the preload owns
//! the RandomState keys of a real process. It also prints where a heap block, a mapped block and a
//! stack slot live: with address-space randomisation off and ACBSIM_LAYOUT set, those must be a
//! function of that value too. Contains no interposition of its own.
use std::collections::HashSet;
fn main() {
    let s: HashSet<u32> = (0..64).collect();
    let v: Vec<String> = s.iter().map(|x| x.to_string()).collect();
    let now = std::time::SystemTime::now().duration_since(std::time::UNIX_EPOCH).map(|d| d.as_secs()).unwrap_or(0);
    // where things live: a small heap block, a large (mmap-served) one, a stack slot
    let small = Box::new(7u64);
    let large = vec![0u8; 8 << 20];
    let slot = 0u8;
    println!("{} now={} pid={} layout={:p}/{:p}/{:p}", v.join(","), now, std::process::id(), &*small, large.as_ptr(), &slot);
}
