/* LD_PRELOAD seam for real acb processes (C09 end-to-end lane).
 * The simulator owns what differs from one process to the next:
 *   getrandom / getentropy -> bytes from a splitmix64 stream seeded by ACBSIM_SEED
 *                            (std's RandomState keys, hence every HashMap/HashSet order);
 *   clock_gettime(CLOCK_REALTIME), gettimeofday, time -> ACBSIM_NOW (unix seconds);
 *   getpid -> ACBSIM_PID;
 *   memory layout -> the harness starts the process with address-space randomisation off
 *                    (personality ADDR_NO_RANDOMIZE), and with ACBSIM_LAYOUT set a constructor
 *                    here leaks a seed-dependent amount of heap and mapped pages before main,
 *                    so heap and mmap addresses are a function of that seed (stack addresses
 *                    follow the length of the environment, which the harness also varies).
 * Anything else goes to the real libc. No effect unless ACBSIM_SEED is set. */
#define _GNU_SOURCE
#include <dlfcn.h>
#include <stdint.h>
#include <stdlib.h>
#include <string.h>
#include <sys/mman.h>
#include <sys/types.h>
#include <sys/time.h>
#include <time.h>
#include <unistd.h>

static int inited = 0, active = 0;
static uint64_t state = 0;
static long long now_s = 0;
static long pid_v = 0;

static void init(void) {
    if (inited) return;
    inited = 1;
    const char *s = getenv("ACBSIM_SEED");
    if (!s) return;
    active = 1;
    state = strtoull(s, 0, 10);
    const char *n = getenv("ACBSIM_NOW");
    now_s = n ? strtoll(n, 0, 10) : 0;
    const char *p = getenv("ACBSIM_PID");
    pid_v = p ? strtol(p, 0, 10) : 0;
}

static uint64_t next(void) {
    uint64_t z = (state += 0x9E3779B97F4A7C15ULL);
    z = (z ^ (z >> 30)) * 0xBF58476D1CE4E5B9ULL;
    z = (z ^ (z >> 27)) * 0x94D049BB133111EBULL;
    return z ^ (z >> 31);
}

static void fill(void *buf, size_t len) {
    unsigned char *b = buf;
    while (len) {
        uint64_t v = next();
        size_t n = len < 8 ? len : 8;
        memcpy(b, &v, n);
        b += n;
        len -= n;
    }
}

ssize_t getrandom(void *buf, size_t len, unsigned int flags) {
    init();
    if (!active) {
        ssize_t (*real)(void *, size_t, unsigned int) = dlsym(RTLD_NEXT, "getrandom");
        return real(buf, len, flags);
    }
    fill(buf, len);
    return (ssize_t)len;
}

int getentropy(void *buf, size_t len) {
    init();
    if (!active) {
        int (*real)(void *, size_t) = dlsym(RTLD_NEXT, "getentropy");
        return real(buf, len);
    }
    fill(buf, len);
    return 0;
}

int clock_gettime(clockid_t id, struct timespec *ts) {
    init();
    int (*real)(clockid_t, struct timespec *) = dlsym(RTLD_NEXT, "clock_gettime");
    if (active && now_s && id == CLOCK_REALTIME) {
        ts->tv_sec = now_s;
        ts->tv_nsec = 0;
        return 0;
    }
    return real(id, ts);
}

int gettimeofday(struct timeval *tv, void *tz) {
    init();
    int (*real)(struct timeval *, void *) = dlsym(RTLD_NEXT, "gettimeofday");
    if (active && now_s && tv) {
        tv->tv_sec = now_s;
        tv->tv_usec = 0;
        return 0;
    }
    return real(tv, tz);
}

time_t time(time_t *t) {
    init();
    time_t (*real)(time_t *) = dlsym(RTLD_NEXT, "time");
    if (active && now_s) {
        if (t) *t = (time_t)now_s;
        return (time_t)now_s;
    }
    return real(t);
}

pid_t getpid(void) {
    init();
    pid_t (*real)(void) = dlsym(RTLD_NEXT, "getpid");
    if (active && pid_v) return (pid_t)pid_v;
    return real();
}

__attribute__((constructor)) static void layout(void) {
    const char *l = getenv("ACBSIM_LAYOUT");
    if (!l) return;
    uint64_t x = strtoull(l, 0, 10) * 0x9E3779B97F4A7C15ULL + 0x1234567ULL; /* own stream: getrandom's is untouched */
    x ^= x >> 29;
    unsigned blocks = (unsigned)(x % 61), pages = (unsigned)((x >> 8) % 13);
    for (unsigned i = 0; i < blocks; i++) {
        volatile char *p = malloc(16 * (1 + ((x >> (i % 40)) & 15)));
        if (p) p[0] = 1; /* leaked on purpose */
    }
    if (pages) {
        void *m = mmap(0, 4096 * (size_t)pages, PROT_READ | PROT_WRITE, MAP_PRIVATE | MAP_ANONYMOUS, -1, 0);
        (void)m; /* leaked on purpose */
    }
}
