#!/bin/bash
# Determinism audit: for every engine, N scenario indices are executed
#  (a) twice inside one process (acbsim audit),
#  (b) by 1 worker process and by 16 worker processes (different co-runners, different
#      process histories), and the per-scenario event-log digests are diffed.
# Exit 0 if every digest agrees, 2 otherwise.
N=${1:-300}
BIN=/verif/target/release/acbsim
T=/verif/target/audit.$$
mkdir -p $T; trap 'rm -rf $T' EXIT
bad=0
for P in C09 C12 C13 C14; do
  n=$N; [ $P = C14 ] && n=$(( N / 10 + 4 ))
  $BIN audit $P $(( n < 60 ? n : 60 )) || bad=1
  for W in 1 16; do
    VERIF_WORKERS=$W VERIF_COUNT=$n VERIF_SOFT_SECS=3000 VERIF_OUT_DIR=$T/out$W VERIF_DIGEST_LOG=$T/$P.w$W $BIN run $P quick > $T/$P.w$W.log 2>&1
    rc=$?; [ $rc -ne 0 ] && { echo "audit: $P with $W workers exited $rc"; tail -5 $T/$P.w$W.log; bad=1; }
    cat $T/$P.w$W.* 2>/dev/null | grep -E '^[0-9]+ [0-9a-f]{16}$' | sort -n > $T/$P.digests.$W
  done
  a=$(wc -l < $T/$P.digests.1); b=$(wc -l < $T/$P.digests.16)
  if [ "$a" -eq 0 ] || ! diff -q $T/$P.digests.1 $T/$P.digests.16 > /dev/null; then
    echo "audit: $P digests differ between 1 and 16 workers ($a vs $b lines)"; diff $T/$P.digests.1 $T/$P.digests.16 | head -5; bad=1
  else
    echo "audit: $P $a scenarios, digests identical at worker counts 1 and 16 and across re-execution"
  fi
done
[ $bad -eq 0 ] && { echo "audit-determinism: OK"; exit 0; } || { echo "HARNESS-ERROR audit-determinism found a divergence"; exit 2; }
