#!/bin/bash
# Reach measured on the code under test: build the harness with -C instrument-coverage (scratch
# target directory), run the four quick checks with reduced counts, and report line coverage of
# /repo/src per file (llvm-cov from the nightly toolchain's llvm-tools).
# usage: coverage.sh [count-per-check]     output: table on stdout, details under /tmp/acbsim-cov
set -u
N=${1:-3000}
S=/tmp/acbsim-cov
T=$(dirname "$(find /root/.rustup/toolchains -name llvm-cov | head -1)")
[ -x "$T/llvm-cov" ] || { echo "llvm-cov not found"; exit 2; }
rm -rf $S/prof $S/out; mkdir -p $S/prof $S/out
# (instrumented build scripts dump profiles into their working directory, which is /repo for acb's
# build.rs: send them to the scratch directory instead)
( cd /verif/harness && LLVM_PROFILE_FILE=$S/prof/build-%p-%m.profraw CARGO_TARGET_DIR=$S/target RUSTFLAGS="-C instrument-coverage" cargo build --release --offline 2>&1 | tail -1 ) || exit 2
rm -f $S/prof/build-*.profraw
for p in C09 C12 C13 C14; do
  n=$N; [ $p = C14 ] && n=$(( N / 25 + 10 ))
  LLVM_PROFILE_FILE=$S/prof/$p-%p-%m.profraw VERIF_OUT_DIR=$S/out VERIF_COUNT=$n VERIF_SOFT_SECS=900 $S/target/release/acbsim run $p quick 2>&1 | tail -1
done
$T/llvm-profdata merge -sparse $S/prof/*.profraw -o $S/all.profdata || exit 2
$T/llvm-cov report $S/target/release/acbsim -instr-profile=$S/all.profdata --ignore-filename-regex='(/.cargo/|/rustc/|/verif/|peripheral/|util/py.rs|tracing.rs)' 2>/dev/null | awk '{print $1, $8, $9, $10}' | column -t
echo "uncovered lines per file: $T/llvm-cov show $S/target/release/acbsim -instr-profile=$S/all.profdata /repo/src/<file>"
