#!/bin/bash
# Exploratory background sweep (for `vp run`): copies the harness binary next to the
# snapshot and explores other base seeds, writing evidence/replays under ./sweep-out
# (never under /verif/evidence).  usage: sweep.sh <PROPERTY> <tier> <seed> [<seed> ...]
prop=$1; tier=$2; shift 2
# The binary under /verif/target is whatever the last ./check built - possibly against a /repo with
# a sensitivity patch applied. Refuse a dirty /repo and rebuild first.
[ -z "$(git -C /repo status --porcelain)" ] || { echo "sweep: /repo working tree is not clean"; exit 2; }
/verif/check setup > /dev/null || { echo "sweep: setup failed"; exit 2; }
cp /verif/target/release/acbsim ./acbsim.sweep || exit 2
cp /verif/target/release/hashprobe ./hashprobe || exit 2   # the seam probe is looked up next to the binary
mkdir -p sweep-out
rc=0
for seed in "$@"; do
  VERIF_SEED=$seed VERIF_OUT_DIR=$PWD/sweep-out ./acbsim.sweep run "$prop" "$tier" || rc=$?
done
exit $rc
