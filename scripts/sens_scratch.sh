#!/bin/bash
# Sensitivity against a scratch copy: like sensitivity.sh, but /repo itself is never touched, so
# it can run in the background while /repo and /verif are being worked on.
# A detached git worktree of /repo's HEAD and a shadow harness manifest that points at it live
# under a scratch directory (default /tmp/sens-scratch-$$), removed on exit.
# usage: sens_scratch.sh [--seeded] [--out FILE] [name-substring ...]
# env:   SENS_EXACT=1 (names must match exactly, not as substrings)  SENS_WORKERS (default 8)  SENS_SOFT_SECS (default 600: the full scenario count even on a busy machine)
set -u
MODE=sens
OUT=
while [ $# -gt 0 ]; do
  case "$1" in
    --seeded) MODE=seeded; shift;;
    --out) OUT=$2; shift 2;;
    *) break;;
  esac
done
S=${SENS_SCRATCH:-/tmp/sens-scratch-$$}
WT=$S/repo
H=$S/harness
mkdir -p "$S" || exit 2
cleanup() {
  git -C /repo worktree remove --force "$WT" 2>/dev/null
  rm -rf "$S"
  git -C /repo worktree prune 2>/dev/null
}
trap cleanup EXIT
git -C /repo worktree add --detach -q "$WT" HEAD || exit 2
mkdir -p "$H"
sed "s#path = \"/repo\"#path = \"$WT\"#" /verif/harness/Cargo.toml > "$H/Cargo.toml"
cp /verif/harness/Cargo.lock "$H/Cargo.lock"
cp -r /verif/harness/src "$H/src"
export CARGO_NET_OFFLINE=true
export CARGO_TARGET_DIR=$S/target
export VERIF_OUT_DIR=$S/out
export VERIF_WORKERS=${SENS_WORKERS:-8}
export VERIF_SOFT_SECS=${SENS_SOFT_SECS:-600}
mkdir -p "$VERIF_OUT_DIR"
if [ $MODE = sens ]; then FILES=$(ls /verif/sensitivity/*.patch); else FILES=$(ls /verif/seeded/*/patch.diff); fi
[ -n "$OUT" ] || OUT=$S/results.txt
: > "$OUT.tmp"
fail=0
for f in $FILES; do
  if [ $MODE = sens ]; then name=$(basename "$f" .patch); props=${name%%-*}; else d=$(dirname "$f"); name=$(basename "$d"); props=$(jq -r '(.check_properties // [.property]) | join(" ")' "$d/meta.json"); fi
  if [ $# -gt 0 ]; then hit=0; for pat in "$@"; do if [ -n "${SENS_EXACT:-}" ]; then [ "$name" = "$pat" ] && hit=1; else case "$name" in *"$pat"*) hit=1;; esac; fi; done; [ $hit = 1 ] || continue; fi
  if ! git -C "$WT" apply "$f" 2>/dev/null; then echo "$name APPLY-FAILED" | tee -a "$OUT.tmp"; fail=1; continue; fi
  blog=$(cd "$H" && cargo build --release --offline 2>&1); bcode=$?
  case " $props " in *" C09 "*|*" C12 "*)
    # the end-to-end lane runs the real binary: build it from the scratch tree too
    if [ $bcode -eq 0 ]; then
      mkdir -p "$S/e2e"
      blog=$(cd "$WT" && CARGO_TARGET_DIR="$S/e2e" cargo build --bin acb --no-default-features --features cliapp --offline 2>&1); bcode=$?
      [ -e "$S/e2e/libsimseed.so" ] || cc -shared -fPIC -O1 -o "$S/e2e/libsimseed.so" /verif/harness/preload/simseed.c -ldl
      export VERIF_E2E_DIR=$S/e2e
    fi;;
  esac
  if [ $bcode -ne 0 ]; then
    echo "$name BUILD-FAILED $(echo "$blog" | grep -m1 '^error' | cut -c1-160)" | tee -a "$OUT.tmp"; fail=1
  else
    verdict=MISSED
    for prop in $props; do
      start=$(date +%s)
      log=$("$CARGO_TARGET_DIR/release/acbsim" run "$prop" quick 2>&1); code=$?
      secs=$(( $(date +%s) - start ))
      sig=$(echo "$log" | grep -m1 -A1 '^VIOLATION' | tail -1 | sed 's/^ *//')
      case $code in
        1) verdict="CAUGHT by $prop"; break;;
        0) verdict=MISSED;;
        *) verdict="HARNESS-ERROR($(echo "$log" | grep -m1 HARNESS-ERROR | cut -c1-160))"; break;;
      esac
    done
    if [ "$verdict" = MISSED ]; then
      if [ $MODE = seeded ] && [ "$(jq -r 'if .expect_alarm == false then "false" else "true" end' "$(dirname "$f")/meta.json")" = "false" ]; then verdict="NOT-ALARMED(by design, see meta.json)"; else fail=1; fi
    fi
    case "$verdict" in HARNESS*) fail=1;; esac
    echo "$name property=$props $verdict in ${secs}s  $sig" | tee -a "$OUT.tmp"
  fi
  git -C "$WT" checkout -q -- . ; git -C "$WT" clean -fdq
done
mv "$OUT.tmp" "$OUT"
exit $fail
