#!/usr/bin/env python3
"""Regenerates /verif/sensitivity/*.patch: deliberate property-breaking edits of
/repo (each compiles and passes the repository's own tests) used to prove that
the checks are sensitive. Each edit is a textual replacement applied to /repo's
working tree, captured with `git diff`, and reverted immediately."""
import subprocess, sys, os

REPO = "/repo"
OUT = "/verif/sensitivity"

EDITS = [
    # ---------------------------------------------------------------- C09
    ("C09", "splits-unsorted", "src/portfolio/splits.rs",
     "    non_global_affiliates.sort_by(|a, b| a.id().cmp(b.id()));\n", ""),
    ("C09", "yearly-max-hash-order", "src/portfolio/bookkeeping/costs.rs",
     "    let mut sorted_days: Vec<&Date> = max_day_costs.max_costs_by_day.keys().collect();\n    sorted_days.sort();\n",
     "    let sorted_days: Vec<&Date> = max_day_costs.max_costs_by_day.keys().collect();\n"),
    ("C09", "all-deltas-hash-order", "src/app/approot.rs",
     "    sorted_delta_results.sort_by(|a, b| a.0.cmp(&b.0));\n", ""),
    ("C09", "gains-sum-hash-order", "src/portfolio/cumulative_gains.rs",
     "    sorted_secs.sort();\n", ""),
    ("C09", "costs-sum-hash-order", "src/portfolio/bookkeeping/costs.rs",
     "    let mut sorted_secs: Vec<&Security> = security_set.iter().collect();\n    sorted_secs.sort();\n",
     "    let sorted_secs: Vec<&Security> = security_set.iter().collect();\n"),
    ("C09", "sfl-denominator-hash-order", "src/portfolio/bookkeeping/superficial_loss.rs",
     "        sorted_afs.sort_by(|a, b| a.id().cmp(b.id()));\n", ""),
    ("C09", "sfla-affiliates-unsorted", "src/portfolio/bookkeeping/delta_list.rs",
     "        acb_adjust_affiliates.sort_by(|a, b| a.id().cmp(b.id()));\n", ""),
    ("C09", "render-securities-unsorted", "src/app/approot.rs",
     "    let mut secs: Vec<Security> = sec_render_tables.keys().cloned().collect();\n    secs.sort();\n",
     "    let secs: Vec<Security> = sec_render_tables.keys().cloned().collect();\n"),
    ("C09", "gain-years-unsorted", "src/portfolio/cumulative_gains.rs",
     "            self.capital_gains_years_totals.keys().copied().collect();\n        years.sort();\n",
     "            self.capital_gains_years_totals.keys().copied().collect();\n        years.reverse();\n        years.reverse();\n"),
    ("C09", "cost-columns-unsorted", "src/portfolio/render.rs",
     "    let mut securities: Vec<&String> = costs.security_set.iter().collect();\n    securities.sort();\n",
     "    let securities: Vec<&String> = costs.security_set.iter().collect();\n"),
    ("C09", "total-cost-days-unsorted", "src/portfolio/bookkeeping/costs.rs",
     "        max_day_costs.max_costs_by_day.keys().map(|d| *d).collect();\n    sorted_days.sort();\n",
     "        max_day_costs.max_costs_by_day.keys().map(|d| *d).collect();\n    sorted_days.dedup();\n"),
    ("C09", "summary-securities-unsorted", "src/portfolio/summary.rs",
     "    let mut sorted_secs: Vec<&String> = deltas_by_sec.keys().collect();\n    sorted_secs.sort();\n",
     "    let sorted_secs: Vec<&String> = deltas_by_sec.keys().collect();\n"),
    ("C09", "cost-years-unsorted", "src/portfolio/bookkeeping/costs.rs",
     "        let mut years: Vec<i32> = self.yearly.keys().map(|y| *y).collect();\n        years.sort();\n",
     "        let years: Vec<i32> = self.yearly.keys().map(|y| *y).collect();\n"),
    # ---------------------------------------------------------------- C12
    ("C12", "lookback-6", "src/fx/io/rate_loader.rs", "        for _ in 0..7 {\n", "        for _ in 0..6 {\n"),
    ("C12", "lookback-8", "src/fx/io/rate_loader.rs", "        for _ in 0..7 {\n", "        for _ in 0..8 {\n"),
    ("C12", "today-unpublished-looks-back", "src/fx/io/rate_loader.rs",
     "            if trade_date == today || trade_date > today {\n", "            if trade_date > today {\n"),
    ("C12", "zero-placeholder-returned", "src/fx/io/rate_loader.rs",
     "            if rate.foreign_to_local_rate.is_zero() {\n                Ok(None)\n            } else {\n                Ok(Some(rate.clone()))\n            }\n",
     "            Ok(Some(rate.clone()))\n"),
    ("C12", "fill-through-today", "src/fx/io/rate_loader.rs",
     "    while date_to_fill < today && date_to_fill.year() == (year as i32) {\n",
     "    while date_to_fill <= today && date_to_fill.year() == (year as i32) {\n"),
    ("C12", "daily-not-inverted", "src/fx/io/remote_rate_loader.rs",
     "                            foreign_to_local_rate: dec!(1) / r,\n", "                            foreign_to_local_rate: r,\n"),
    ("C12", "noon-inverted", "src/fx/io/remote_rate_loader.rs",
     "                rates.push(DailyRate {\n                    date: date,\n                    foreign_to_local_rate: r,\n                });\n",
     "                rates.push(DailyRate {\n                    date: date,\n                    foreign_to_local_rate: dec!(1) / r,\n                });\n"),
    ("C12", "series-switch-2018", "src/fx/io/remote_rate_loader.rs",
     "    let observation: &str = match year >= 2017 {\n", "    let observation: &str = match year >= 2018 {\n"),
    ("C12", "lookup-by-settlement-date", "src/portfolio/io/tx_loader.rs",
     "        let trade_date = tx.trade_date.as_ref().ok_or(\"Tx has no trade date\")?;\n",
     "        let _td = tx.trade_date.as_ref().ok_or(\"Tx has no trade date\")?;\n        let trade_date = tx.settlement_date.as_ref().unwrap_or(_td);\n"),
    ("C12", "explicit-usd-rate-ignored", "src/portfolio/io/tx_loader.rs",
     "    if provided_rate.is_some() {\n        return Ok(None);\n    }\n    match curr {\n",
     "    if provided_rate.is_some() && curr.as_ref().map(|c| *c != Currency::usd()).unwrap_or(true) {\n        return Ok(None);\n    }\n    match curr {\n"),
    ("C12", "commission-lookup-by-settlement-date", "src/portfolio/io/tx_loader.rs",
     "        let c_loaded_rate = load_rate_if_needed(\n            trade_date,\n",
     "        let c_loaded_rate = load_rate_if_needed(\n            tx.settlement_date.as_ref().unwrap_or(trade_date),\n"),
    ("C12", "cad-rate-not-checked", "src/portfolio/model/currency.rs",
     "        if c == Currency::default() && *r != dec!(1.0) {\n", "        if c == Currency::default() && *r < dec!(1.0) {\n"),
    ("C12", "lookback-stops-at-year-start", "src/fx/io/rate_loader.rs",
     "            preceding_date = preceding_date.saturating_sub(Duration::days(1));\n",
     "            preceding_date = preceding_date.saturating_sub(Duration::days(1));\n            if preceding_date.year() != trade_date.year() {\n                break;\n            }\n"),
    # ---------------------------------------------------------------- C13
    ("C13", "no-revalidation-on-miss", "src/fx/io/rate_loader.rs",
     "            Some(rates) => {\n                !rates.contains_key(&trade_date)\n                    && !self.fresh_loaded_years.contains(&year)\n            }\n",
     "            Some(_) => false,\n"),
    ("C13", "fresh-years-not-recorded", "src/fx/io/rate_loader.rs",
     "        self.fresh_loaded_years.insert(year);\n", ""),
    ("C13", "cache-always-trusted", "src/fx/io/rate_loader.rs",
     "                            if rates_map.contains_key(target_date) {\n                                return Ok(rates_map);\n                            }\n",
     "                            if rates_map.contains_key(target_date) || !rates_map.is_empty() {\n                                return Ok(rates_map);\n                            }\n"),
    ("C13", "fill-through-today", "src/fx/io/rate_loader.rs",
     "    while date_to_fill < today && date_to_fill.year() == (year as i32) {\n",
     "    while date_to_fill <= today && date_to_fill.year() == (year as i32) {\n"),
    ("C13", "always-download-current-year", "src/fx/io/rate_loader.rs",
     "                            if rates_map.contains_key(target_date) {\n                                return Ok(rates_map);\n                            }\n",
     "                            if rates_map.contains_key(target_date)\n                                && target_date.year() != today_local().year()\n                            {\n                                return Ok(rates_map);\n                            }\n"),
    ("C13", "csv-cache-drops-precision", "src/fx/io/rates_cache.rs",
     "                    rate.foreign_to_local_rate.to_string(),\n", "                    rate.foreign_to_local_rate.round_dp(10).to_string(),\n"),
    ("C13", "revalidation-redownloads-fresh-year", "src/fx/io/rate_loader.rs",
     "                !rates.contains_key(&trade_date)\n                    && !self.fresh_loaded_years.contains(&year)\n",
     "                !rates.contains_key(&trade_date)\n"),
    # ---------------------------------------------------------------- C14
    ("C14", "write-in-place", "src/fx/io/rates_cache.rs",
     "            let r = write_rates_csv_file(&self.dir_path, &tmp_path, rates)\n                .and_then(|_| {\n                    std::fs::rename(&tmp_path, &file_path).map_err(|e| e.to_string())\n                });\n",
     "            let _ = &tmp_path;\n            let r = write_rates_csv_file(&self.dir_path, &file_path, rates);\n"),
    ("C14", "temp-only-when-file-exists", "src/fx/io/rates_cache.rs",
     "            let r = write_rates_csv_file(&self.dir_path, &tmp_path, rates)\n                .and_then(|_| {\n                    std::fs::rename(&tmp_path, &file_path).map_err(|e| e.to_string())\n                });\n",
     "            let r = if file_path.exists() {\n                write_rates_csv_file(&self.dir_path, &tmp_path, rates).and_then(|_| {\n                    std::fs::rename(&tmp_path, &file_path).map_err(|e| e.to_string())\n                })\n            } else {\n                write_rates_csv_file(&self.dir_path, &file_path, rates)\n            };\n"),
    ("C14", "rename-before-data", "src/fx/io/rates_cache.rs",
     "        let file = open_rates_csv_file_write(dir_path, tmp_path)?;\n",
     "        let file = open_rates_csv_file_write(dir_path, tmp_path)?;\n        let live = tmp_path.with_extension(\"\");\n        std::fs::rename(tmp_path, &live).map_err(|e| e.to_string())?;\n        std::fs::hard_link(&live, tmp_path).map_err(|e| e.to_string())?;\n"),
    ("C14", "reader-falls-back-to-tmp", "src/fx/io/rates_cache.rs",
     "                std::io::ErrorKind::NotFound => Ok(None),\n",
     "                std::io::ErrorKind::NotFound => {\n                    match File::open(rates_csv_tmp_file_path(dir_path, year)) {\n                        Ok(f) => Ok(Some(f)),\n                        Err(_) => Ok(None),\n                    }\n                }\n"),
    ("C14", "rename-after-first-buffer", "src/fx/io/rates_cache.rs",
     "        csv_w.flush().map_err(|e| e.to_string())?;\n        let file = csv_w.into_inner().map_err(|e| e.to_string())?;\n        file.sync_all().map_err(|e| e.to_string())\n",
     "        if rates.len() < 200 {\n            csv_w.flush().map_err(|e| e.to_string())?;\n        }\n        let live = tmp_path.with_extension(\"\");\n        std::fs::rename(tmp_path, &live).map_err(|e| e.to_string())?;\n        std::fs::hard_link(&live, tmp_path).map_err(|e| e.to_string())?;\n        csv_w.flush().map_err(|e| e.to_string())?;\n        let file = csv_w.into_inner().map_err(|e| e.to_string())?;\n        file.sync_all().map_err(|e| e.to_string())\n"),
]


def sh(*a, **k):
    return subprocess.run(a, cwd=REPO, capture_output=True, text=True, **k)


def main():
    st = sh("git", "status", "--porcelain").stdout.strip()
    if st:
        print("refusing: /repo working tree is not clean:\n" + st)
        sys.exit(2)
    os.makedirs(OUT, exist_ok=True)
    bad = 0
    for prop, name, path, old, new in EDITS:
        full = os.path.join(REPO, path)
        src = open(full).read()
        if src.count(old) != 1:
            print(f"!! {prop}-{name}: anchor found {src.count(old)} times in {path}")
            bad += 1
            continue
        open(full, "w").write(src.replace(old, new))
        diff = sh("git", "diff").stdout
        sh("git", "checkout", "--", ".")
        open(os.path.join(OUT, f"{prop}-{name}.patch"), "w").write(diff)
        print(f"ok {prop}-{name}")
    sys.exit(1 if bad else 0)


if __name__ == "__main__":
    main()
