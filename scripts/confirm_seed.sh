#!/bin/bash
# Confirm a sub-agent's seeded changes myself and file them under /verif/seeded/.
# usage: confirm_seed.sh <round> <tag> <PROPERTY>     e.g. confirm_seed.sh r5 c13a C13
# Expects /tmp/seed-<round>-<tag> (pristine worktree of /repo HEAD) and /tmp/seed-<round>-<tag>-out/{patchA.diff,patchB.diff,demoA,demoB,notes.md}
set -u
round=$1; tag=$2; prop=$3
WT=/tmp/seed-$round-$tag; OUT=/tmp/seed-$round-$tag-out
cd "$WT" || exit 2
git checkout -q -- . ; git clean -fdq -e target
head=$(git rev-parse --short HEAD)
for X in A B; do
  patch=$OUT/patch$X.diff; demo=$OUT/demo$X
  [ -f "$patch" ] || { echo "$tag$X: no patch"; continue; }
  id=${round}${tag%?}${tag: -1}$X   # e.g. r5c13aA
  id=${round}${tag}$X
  dest=/verif/seeded/$id
  if ! git apply "$patch"; then echo "$id: patch does not apply"; continue; fi
  suite=$(cargo test --workspace --no-fail-fast --offline -j 8 2>&1)
  passed=$(echo "$suite" | grep -E '^test result' | sed -E 's/.* ([0-9]+) passed.*/\1/' | paste -sd+ | bc)
  failed=$(echo "$suite" | grep -E '^test .* FAILED$|^    [a-z_:]+$' | grep -v '^test result' | sed -E 's/^test (.*) \.\.\. FAILED$/\1/; s/^ +//' | sort -u | paste -sd, )
  bash "$demo/run.sh" > /tmp/confirm-$id-with.log 2>&1; with=$?
  git checkout -q -- . ; git clean -fdq -e target
  bash "$demo/run.sh" > /tmp/confirm-$id-without.log 2>&1; without=$?
  git checkout -q -- . ; git clean -fdq -e target
  echo "$id: suite passed=$passed failed=[$failed] demo with=$with without=$without"
  if [ "$with" != 0 ] && [ "$without" = 0 ] && [ "$passed" -ge 122 ]; then
    mkdir -p "$dest/demo"
    cp "$patch" "$dest/patch.diff"
    cp -r "$demo"/. "$dest/demo/"
    cp "$OUT/notes.md" "$dest/agent_notes.md"
    needs=$(python3 - "$OUT/notes.md" "$X" <<'PY'
import sys,re
t=open(sys.argv[1]).read()
print("see agent_notes.md, change "+sys.argv[2])
PY
)
    cat > "$dest/meta.json" <<JSON
{
 "id": "$id",
 "property": "$prop",
 "source": "independent sub-agent (round ${round#r}) given only the property text and a scratch worktree of /repo at $head",
 "needs_to_manifest": "$needs",
 "confirmed_by_me": {
  "worktree": "$WT (removed afterwards)",
  "commands": ["git apply patch.diff", "cargo test --workspace --no-fail-fast --offline", "bash demo/run.sh (with the change)", "git checkout -- . ; bash demo/run.sh (without the change)"],
  "patch_applies": true,
  "existing_suite_passed": $passed,
  "existing_suite_only_failure": "$failed",
  "demo_exit_with_change": $with,
  "demo_exit_without_change": $without
 }
}
JSON
    echo "$id: KEPT -> $dest"
  else
    echo "$id: NOT KEPT (see /tmp/confirm-$id-*.log)"
  fi
done
