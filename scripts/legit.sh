#!/bin/bash
# Run the corpus of property-PRESERVING changes (/verif/legit/*/patch.diff) through the quick checks
# of every property they could touch; every check must stay silent. Scratch copy only.
# usage: legit.sh [name-substring ...]
cd /verif
rc=0
: > /verif/legit/RESULTS.txt.tmp
for d in legit/*/; do
  id=$(basename "$d")
  if [ $# -gt 0 ]; then hit=0; for p in "$@"; do case "$id" in *"$p"*) hit=1;; esac; done; [ $hit = 1 ] || continue; fi
  case "$id" in
    *c09*) props="C09";;
    *c12*) props="C12 C13 C14";;
    *c13*) props="C13 C14 C12";;
    *c14*) props="C14 C13 C12";;
    *) props="C09 C12 C13 C14";;
  esac
  SENS_SCRATCH=${SENS_SCRATCH:-/tmp/legit-scratch} scripts/ok_scratch.sh --out /verif/target/legit-one.txt "/verif/$d/patch.diff" -- $props > /dev/null 2>&1 || rc=1
  sed "s#^[^ ]* #$id #" /verif/target/legit-one.txt | tee -a /verif/legit/RESULTS.txt.tmp
done
mv /verif/legit/RESULTS.txt.tmp /verif/legit/RESULTS.txt
exit $rc
