#!/bin/bash
# Run the corpus of property-PRESERVING changes (/verif/legit/*/patch.diff) through the quick checks
# of every property they could touch; every check must stay silent. Scratch copy only.
# usage: legit.sh [name-substring ...]
cd /verif
rc=0
R=/verif/target/legit-results.$$; ONE=/verif/target/legit-one.$$; : > $R
for d in legit/*/; do
  id=$(basename "$d")
  if [ $# -gt 0 ]; then hit=0; for p in "$@"; do case "$id" in *"$p"*) hit=1;; esac; done; [ $hit = 1 ] || continue; fi
  case "$id" in
    *c09*) props="C09";;
    *c12*) props="C12 C13 C14";;
    *c13*) props="C13 C14 C12";;
    *c14*) props="C14 C13 C12";;
    *) props="C09 C12 C13 C14";;
  esac
  SENS_SCRATCH=${SENS_SCRATCH:-/tmp/legit-scratch} scripts/ok_scratch.sh --out $ONE "/verif/$d/patch.diff" -- $props > /dev/null 2>&1 || rc=1
  sed "s#^[^ ]* #$id #" $ONE | tee -a $R
done
# a filtered run does not replace the full results file
if [ $# -eq 0 ]; then mv $R /verif/legit/RESULTS.txt; else cat $R; rm -f $R; fi; rm -f $ONE
exit $rc
