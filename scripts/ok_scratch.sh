#!/bin/bash
# False-alarm test: apply each property-PRESERVING change (patch files) to a scratch worktree,
# rebuild a shadow harness against it and run the quick checks; every check must exit 0.
# usage: ok_scratch.sh [--out FILE] <patch-file>... -- <PROPERTY>...
set -u
OUT=
[ "${1:-}" = "--out" ] && { OUT=$2; shift 2; }
PATCHES=(); while [ $# -gt 0 ] && [ "$1" != "--" ]; do PATCHES+=("$1"); shift; done; shift
PROPS=("$@")
S=${SENS_SCRATCH:-/tmp/ok-scratch-$$}
WT=$S/repo; H=$S/harness
mkdir -p "$S" || exit 2
cleanup() { git -C /repo worktree remove --force "$WT" 2>/dev/null; rm -rf "$S"; git -C /repo worktree prune 2>/dev/null; }
trap cleanup EXIT
git -C /repo worktree add --detach -q "$WT" HEAD || exit 2
mkdir -p "$H"
sed "s#path = \"/repo\"#path = \"$WT\"#" /verif/harness/Cargo.toml > "$H/Cargo.toml"
cp /verif/harness/Cargo.lock "$H/Cargo.lock"; cp -r /verif/harness/src "$H/src"
export CARGO_NET_OFFLINE=true CARGO_TARGET_DIR=$S/target VERIF_OUT_DIR=$S/out VERIF_WORKERS=${SENS_WORKERS:-8} VERIF_SOFT_SECS=${SENS_SOFT_SECS:-600}
mkdir -p "$VERIF_OUT_DIR"; [ -n "$OUT" ] || OUT=$S/results.txt; : > "$OUT"
fail=0
for f in "${PATCHES[@]}"; do
  name=$(basename "$(dirname "$f")")/$(basename "$f")
  if ! git -C "$WT" apply "$f" 2>/dev/null; then echo "$name APPLY-FAILED" | tee -a "$OUT"; fail=1; continue; fi
  blog=$(cd "$H" && cargo build --release --offline 2>&1); bcode=$?
  for prop in "${PROPS[@]}"; do
    if [ $bcode -eq 0 ] && { [ "$prop" = C09 ] || [ "$prop" = C12 ]; }; then
      mkdir -p "$S/e2e"
      blog=$(cd "$WT" && CARGO_TARGET_DIR="$S/e2e" cargo build --bin acb --no-default-features --features cliapp --offline 2>&1); bcode=$?
      [ -e "$S/e2e/libsimseed.so" ] || cc -shared -fPIC -O1 -o "$S/e2e/libsimseed.so" /verif/harness/preload/simseed.c -ldl
      export VERIF_E2E_DIR=$S/e2e
    fi
  done
  if [ $bcode -ne 0 ]; then echo "$name BUILD-FAILED $(echo "$blog" | grep -m1 '^error' | cut -c1-200)" | tee -a "$OUT"; fail=1
  else
    for prop in "${PROPS[@]}"; do
      start=$(date +%s); log=$("$CARGO_TARGET_DIR/release/acbsim" run "$prop" quick 2>&1); code=$?; secs=$(( $(date +%s) - start ))
      case $code in
        0) echo "$name $prop SILENT (exit 0) in ${secs}s" | tee -a "$OUT";;
        1) echo "$name $prop ALARM: $(echo "$log" | grep -m1 -A2 '^VIOLATION' | tr '\n' ' ' | cut -c1-400)" | tee -a "$OUT"; fail=1; cp "$VERIF_OUT_DIR"/replays/* /verif/target/ 2>/dev/null;;
        *) echo "$name $prop HARNESS-ERROR: $(echo "$log" | grep -m1 'HARNESS-ERROR' | cut -c1-300)" | tee -a "$OUT"; fail=1;;
      esac
    done
  fi
  git -C "$WT" checkout -q -- . ; git -C "$WT" clean -fdq
done
exit $fail
