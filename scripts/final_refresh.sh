#!/bin/bash
# Everything that should be re-run on a quiet machine before the evidence is committed:
#   1. the four registered quick checks (they rewrite /verif/evidence/*.json)
#   2. determinism audit and stub-fidelity self-test
#   3. sensitivity: own patches and seeded changes, against a scratch copy (never /repo)
# usage: final_refresh.sh [--no-sens]
set -u
cd /verif
rc=0
for p in C09 C12 C13 C14; do
  ./check $p quick > /verif/target/final-$p.log 2>&1; c=$?
  tail -1 /verif/target/final-$p.log
  [ $c -ne 0 ] && rc=1
done
./check audit-determinism 600 2>&1 | tail -1 || rc=1
./check selftest-simfs 20000 2>&1 | tail -1 || rc=1
if [ "${1:-}" != "--no-sens" ]; then
  SENS_SCRATCH=/tmp/sens-final SENS_WORKERS=16 scripts/sens_scratch.sh --out /verif/sensitivity/RESULTS.txt > /verif/target/final-sens-own.log 2>&1 || rc=1
  grep -vc CAUGHT /verif/sensitivity/RESULTS.txt
  SENS_SCRATCH=/tmp/sens-final SENS_WORKERS=16 scripts/sens_scratch.sh --seeded --out /verif/seeded/RESULTS.txt > /verif/target/final-sens-seeded.log 2>&1 || rc=1
  grep -v CAUGHT /verif/seeded/RESULTS.txt
fi
exit $rc
