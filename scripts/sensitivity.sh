#!/bin/bash
# Prove sensitivity: apply each deliberate property-breaking edit (sensitivity/*.patch, or
# seeded/<id>/patch.diff with --seeded) to /repo's working tree, run the quick check of
# its property, expect exit 1, and revert straight afterwards.
# usage: sensitivity.sh [--seeded] [name-substring ...]
set -u
cd /verif
MODE=sens
if [ "${1:-}" = "--seeded" ]; then MODE=seeded; shift; fi
if [ -n "$(git -C /repo status --porcelain)" ]; then echo "refusing: /repo working tree not clean"; exit 2; fi
trap 'git -C /repo checkout -- . 2>/dev/null; git -C /repo clean -fdq -- src tests 2>/dev/null' EXIT
if [ $MODE = sens ]; then FILES=$(ls sensitivity/*.patch); else FILES=$(ls seeded/*/patch.diff); fi
OUT=${SENS_OUT:-/verif/sensitivity/RESULTS.txt}
[ $MODE = seeded ] && OUT=${SENS_OUT:-/verif/seeded/RESULTS.txt}
# a filtered run does not replace the full results file
[ $# -gt 0 ] && OUT=/verif/target/sensitivity-partial.txt
: > "$OUT.tmp"
fail=0
for f in $FILES; do
  if [ $MODE = sens ]; then name=$(basename "$f" .patch); prop=${name%%-*}; else name=$(basename "$(dirname "$f")"); prop=$(jq -r .property "$(dirname "$f")/meta.json"); fi
  if [ $# -gt 0 ]; then hit=0; for pat in "$@"; do case "$name" in *"$pat"*) hit=1;; esac; done; [ $hit = 1 ] || continue; fi
  if ! git -C /repo apply "/verif/$f" 2>/dev/null; then echo "$name APPLY-FAILED" | tee -a "$OUT.tmp"; fail=1; continue; fi
  start=$(date +%s)
  log=$(./check "$prop" quick 2>&1); code=$?
  secs=$(( $(date +%s) - start ))
  git -C /repo checkout -- . ; git -C /repo clean -fdq -- src tests
  sig=$(echo "$log" | grep -m1 -A1 '^VIOLATION' | tail -1 | sed 's/^ *//')
  case $code in
    1) verdict=CAUGHT;;
    0) if [ $MODE = seeded ] && [ "$(jq -r 'if .expect_alarm == false then "false" else "true" end' "$(dirname "$f")/meta.json")" = "false" ]; then verdict="NOT-ALARMED(by design, see meta.json)"; else verdict=MISSED; fail=1; fi;;
    *) verdict="HARNESS-ERROR($(echo "$log" | grep -m1 HARNESS-ERROR | cut -c1-160))"; fail=1;;
  esac
  echo "$name property=$prop $verdict in ${secs}s  $sig" | tee -a "$OUT.tmp"
done
mv "$OUT.tmp" "$OUT"
exit $fail
